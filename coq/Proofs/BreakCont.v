(* Proofs/BreakCont.v — property C07: a host break followed by CONT is
   transparent to the interrupted program, and inspecting state at a
   breakpoint does not change the continuation.

   Layout:
     0. the evaluators never return a tokenizer error ([nosyn]); this is what
        makes the row of "CONT" (which has a source text) and the row of a
        plain continue (which has none) render the same caret;
     1. break-then-CONT = continue, for a running numbered program
        ([break_cont_running]);
     2. break-then-CONT while awaiting input re-issues the same request
        ([break_cont_awaiting]);
     3. schedules: inserting break/CONT pairs anywhere in a run of
        continue / reply operations ([break_schedule]);
     4. inspection at a breakpoint ([cont_runtime_eq], [inspection_runtime],
        [inspection_then_cont]);
     5. non-vacuity examples. *)
From Coq Require Import List NArith ZArith Bool Lia.
From Abasic Require Import Model.Bytes Model.Num Model.Token Model.Data Model.Lexer Gen.Tables
     Model.State Model.Eval Model.Interp Proofs.Monad Proofs.Frames Proofs.StoreProofs
     Proofs.ResetProofs Proofs.Safety Proofs.FlagsSim Proofs.InputProofs Proofs.RunInv.
Import ListNotations.
Local Open Scope nat_scope.

(* ------------------------------------------------------------------ *)
(* 0. No evaluator returns [ESyntaxTok]: that error is produced by the
      tokenizer only ([evaluate_impl]). *)

Definition ok_res {A} (r : res A) : Prop :=
  match r with Err (ESyntaxTok _) _ => False | _ => True end.

Definition nosyn {A} (m : M A) : Prop := forall s, ok_res (fst (m s)).

Lemma nosyn_ret {A} (a : A) : nosyn (ret a). Proof. intros s; exact I. Qed.
Lemma nosyn_get {A} (f : interp -> A) : nosyn (get f). Proof. intros s; exact I. Qed.
Lemma nosyn_modify f : nosyn (modify f). Proof. intros s; exact I. Qed.
Lemma nosyn_panic {A} p : nosyn (@panic A p). Proof. intros s; exact I. Qed.
Lemma nosyn_out_of_fuel {A} : nosyn (@out_of_fuel A). Proof. intros s; exact I. Qed.
Lemma nosyn_oracle_miss {A} : nosyn (@oracle_miss A). Proof. intros s; exact I. Qed.
Lemma nosyn_fail {A} e : (forall t, e <> ESyntaxTok t) -> nosyn (@fail A e).
Proof. intros H s. cbn. destruct e; try exact I. eapply H; reflexivity. Qed.
Lemma nosyn_fail_at {A} e l : (forall t, e <> ESyntaxTok t) -> nosyn (@fail_at A e l).
Proof. intros H s. cbn. destruct e; try exact I. eapply H; reflexivity. Qed.
Lemma nosyn_lift_res {A} (r : res A) : ok_res r -> nosyn (lift_res r).
Proof. intros H s; exact H. Qed.

Lemma nosyn_bind {A B} (m : M A) (f : A -> M B) :
  nosyn m -> (forall a, nosyn (f a)) -> nosyn (bind m f).
Proof.
  intros Hm Hf s. unfold bind. specialize (Hm s).
  destruct (m s) as [[a|e l|p| |] s1]; cbn [fst] in *; try exact Hm. apply Hf.
Qed.

Lemma nosyn_repeat {S T} n (body : S -> M (S + T)) :
  (forall acc, nosyn (body acc)) -> forall acc, nosyn (repeat_m n body acc).
Proof.
  intros Hb. induction n as [|n IH]; intros acc; cbn [repeat_m].
  - apply nosyn_out_of_fuel.
  - apply nosyn_bind; [apply Hb|]. intros [acc'|r]; [apply IH|apply nosyn_ret].
Qed.

Lemma coerce_data_cases name e :
  (exists v, coerce_data name e = Ok v) \/ coerce_data name e = Err EDataTypeMismatch None.
Proof.
  unfold coerce_data. destruct (ends_with_dollar name); destruct e; eauto.
Qed.

Lemma ok_res_coerce name e : ok_res (coerce_data name e).
Proof. destruct (coerce_data_cases name e) as [[v ->]| ->]; exact I. Qed.

Lemma ok_res_create name mi : ok_res (array_create_value name mi).
Proof.
  unfold array_create_value. destruct mi as [|m mi]; [exact I|].
  destruct (existsb _ _); [exact I|].
  destruct (checked_product _ _); [|exact I].
  destruct (max_dim_total <? n)%N; exact I.
Qed.

Lemma ok_res_linear a idx : ok_res (array_linear_index a idx).
Proof.
  unfold array_linear_index. destruct (negb _); [exact I|]. destruct (linear_index _ _ _ _); exact I.
Qed.

Create HintDb nsdb discriminated.

Ltac ns_leaf := solve [ auto 2 with nsdb nocore ].

Ltac ns_step :=
  lazymatch goal with
  | |- nosyn (ret _) => apply nosyn_ret
  | |- nosyn (fail _) => apply nosyn_fail; intros ?; discriminate
  | |- nosyn (fail_at _ _) => apply nosyn_fail_at; intros ?; discriminate
  | |- nosyn (panic _) => apply nosyn_panic
  | |- nosyn out_of_fuel => apply nosyn_out_of_fuel
  | |- nosyn oracle_miss => apply nosyn_oracle_miss
  | |- nosyn (get _) => apply nosyn_get
  | |- nosyn (modify _) => apply nosyn_modify
  | |- nosyn (lift_res (coerce_data _ _)) => apply nosyn_lift_res, ok_res_coerce
  | |- nosyn (lift_res (array_create_value _ _)) => apply nosyn_lift_res, ok_res_create
  | |- nosyn (lift_res (array_linear_index _ _)) => apply nosyn_lift_res, ok_res_linear
  | |- nosyn (bind _ _) => apply nosyn_bind; [| intro]
  | |- nosyn (repeat_m _ _ _) => apply nosyn_repeat; intro
  | |- nosyn (if ?b then _ else _) => destruct b
  | |- nosyn (let '(_, _) := ?x in _) => destruct x
  | |- nosyn (match coerce_data ?n ?e with _ => _ end) =>
      let v := fresh "v" in let E := fresh "E" in
      destruct (coerce_data_cases n e) as [[v E]|E]; rewrite E
  | |- nosyn (match ?x with _ => _ end) => destruct x
  | |- nosyn _ => ns_leaf
  end.

Ltac ns_walk := repeat ns_step.

Lemma nosyn_tokens_for_line l : nosyn (tokens_for_line l).
Proof.
  intros s. unfold tokens_for_line. destruct l as [n|]; [|exact I].
  destruct (toks_get n (st_toks s)); exact I.
Qed.
#[local] Hint Resolve nosyn_tokens_for_line : nsdb.

Lemma nosyn_cur_tokens : nosyn cur_tokens. Proof. unfold cur_tokens; ns_walk. Qed.
#[local] Hint Resolve nosyn_cur_tokens : nsdb.
Lemma nosyn_peek : nosyn peek_next_token. Proof. unfold peek_next_token; ns_walk. Qed.
#[local] Hint Resolve nosyn_peek : nsdb.
Lemma nosyn_has_next : nosyn has_next_token. Proof. unfold has_next_token; ns_walk. Qed.
Lemma nosyn_advance : nosyn advance. Proof. unfold advance; ns_walk. Qed.
#[local] Hint Resolve nosyn_has_next nosyn_advance : nsdb.
Lemma nosyn_next_token : nosyn next_token. Proof. unfold next_token; ns_walk. Qed.
#[local] Hint Resolve nosyn_next_token : nsdb.
Lemma nosyn_next_unwrapped : nosyn next_unwrapped_token. Proof. unfold next_unwrapped_token; ns_walk. Qed.
#[local] Hint Resolve nosyn_next_unwrapped : nsdb.
Lemma nosyn_expect e : nosyn (expect_next_token e). Proof. unfold expect_next_token; ns_walk. Qed.
Lemma nosyn_accept e : nosyn (accept_next_token e). Proof. unfold accept_next_token; ns_walk. Qed.
Lemma nosyn_peek_is e : nosyn (peek_is e). Proof. unfold peek_is; ns_walk. Qed.
Lemma nosyn_try {A} (f : token -> option A) : nosyn (try_next_token f).
Proof. unfold try_next_token; ns_walk. Qed.
Lemma nosyn_discard : nosyn discard_remaining_tokens. Proof. unfold discard_remaining_tokens; ns_walk. Qed.
#[local] Hint Resolve nosyn_expect nosyn_accept nosyn_peek_is nosyn_try nosyn_discard : nsdb.
Lemma nosyn_rewind_loop i e : nosyn (rewind_loop i e).
Proof. induction i as [|i IH]; cbn [rewind_loop]; ns_walk. Qed.
#[local] Hint Resolve nosyn_rewind_loop : nsdb.
Lemma nosyn_rewind e : nosyn (rewind_before_token e). Proof. unfold rewind_before_token; ns_walk. Qed.
Lemma nosyn_get_line_number : nosyn get_line_number. Proof. unfold get_line_number; ns_walk. Qed.
Lemma nosyn_set_imm ts : nosyn (set_and_goto_immediate_line ts).
Proof. unfold set_and_goto_immediate_line; ns_walk. Qed.
#[local] Hint Resolve nosyn_rewind nosyn_get_line_number nosyn_set_imm : nsdb.
Lemma nosyn_remove_loop sym : nosyn (remove_loop_with_name sym).
Proof. unfold remove_loop_with_name; ns_walk. Qed.
Lemma nosyn_program_break : nosyn program_break_at_current_location.
Proof. unfold program_break_at_current_location; ns_walk. Qed.
Lemma nosyn_variables_set n v : nosyn (variables_set n v). Proof. unfold variables_set; ns_walk. Qed.
Lemma nosyn_variables_get n : nosyn (variables_get n). Proof. unfold variables_get; ns_walk. Qed.
#[local] Hint Resolve nosyn_remove_loop nosyn_program_break nosyn_variables_set nosyn_variables_get : nsdb.
Lemma nosyn_start_loop sym a b c : nosyn (start_loop sym a b c). Proof. unfold start_loop; ns_walk. Qed.
Lemma nosyn_end_loop sym : nosyn (end_loop sym). Proof. unfold end_loop; ns_walk. Qed.
Lemma nosyn_reset_data : nosyn reset_data_cursor. Proof. unfold reset_data_cursor; ns_walk. Qed.
Lemma nosyn_program_end : nosyn program_end. Proof. unfold program_end; ns_walk. Qed.
Lemma nosyn_goto n : nosyn (goto_line_number n). Proof. unfold goto_line_number; ns_walk. Qed.
#[local] Hint Resolve nosyn_start_loop nosyn_end_loop nosyn_reset_data nosyn_program_end nosyn_goto : nsdb.
Lemma nosyn_gosub n : nosyn (gosub_line_number n). Proof. unfold gosub_line_number; ns_walk. Qed.
Lemma nosyn_return : nosyn return_to_last_gosub. Proof. unfold return_to_last_gosub; ns_walk. Qed.
Lemma nosyn_define_function n a : nosyn (define_function n a). Proof. unfold define_function; ns_walk. Qed.
Lemma nosyn_push_fn n b : nosyn (push_function_call n b). Proof. unfold push_function_call; ns_walk. Qed.
Lemma nosyn_pop_fn : nosyn pop_function_call. Proof. unfold pop_function_call; ns_walk. Qed.
Lemma nosyn_find_var n : nosyn (find_variable_value_in_stack n).
Proof. unfold find_variable_value_in_stack; ns_walk. Qed.
#[local] Hint Resolve nosyn_gosub nosyn_return nosyn_define_function nosyn_push_fn nosyn_pop_fn
  nosyn_find_var : nsdb.
Lemma nosyn_next_data : nosyn next_data_element.
Proof.
  intros s. unfold next_data_element. destruct (data_it s) as [d|].
  - destruct (data_next _ d); exact I.
  - destruct (data_chunks (st_keys s) (st_toks s)); try exact I. destruct (data_next _ _); exact I.
Qed.
Lemma nosyn_is_else : nosyn is_else_of_then_clause. Proof. unfold is_else_of_then_clause; ns_walk. Qed.
Lemma nosyn_next_line : nosyn next_line. Proof. unfold next_line; ns_walk. Qed.
#[local] Hint Resolve nosyn_next_data nosyn_is_else nosyn_next_line : nsdb.
Lemma nosyn_arrays_create n i : nosyn (arrays_create n i). Proof. unfold arrays_create; ns_walk. Qed.
Lemma nosyn_maybe_default n d : nosyn (maybe_create_default_array n d).
Proof. unfold maybe_create_default_array; ns_walk. Qed.
#[local] Hint Resolve nosyn_arrays_create nosyn_maybe_default : nsdb.
Lemma nosyn_arrays_get n i : nosyn (arrays_get n i). Proof. unfold arrays_get; ns_walk. Qed.
Lemma nosyn_arrays_set n i v : nosyn (arrays_set n i v). Proof. unfold arrays_set; ns_walk. Qed.
Lemma nosyn_rng_rnd x : nosyn (rng_rnd x). Proof. unfold rng_rnd; ns_walk. Qed.
Lemma nosyn_push_output o : nosyn (push_output o). Proof. unfold push_output; ns_walk. Qed.
#[local] Hint Resolve nosyn_arrays_get nosyn_arrays_set nosyn_rng_rnd nosyn_push_output : nsdb.
Lemma nosyn_warn m : nosyn (warn m). Proof. unfold warn; ns_walk. Qed.
#[local] Hint Resolve nosyn_warn : nsdb.
Lemma nosyn_maybe_warn n : nosyn (maybe_warn_undeclared_array n).
Proof. unfold maybe_warn_undeclared_array; ns_walk. Qed.
#[local] Hint Resolve nosyn_maybe_warn : nsdb.

Lemma nosyn_eval_unary o v : nosyn (eval_unary o v). Proof. unfold eval_unary; ns_walk. Qed.
Lemma nosyn_eval_addsub o a b : nosyn (eval_addsub o a b). Proof. unfold eval_addsub; ns_walk. Qed.
Lemma nosyn_eval_muldiv o a b : nosyn (eval_muldiv o a b). Proof. unfold eval_muldiv; ns_walk. Qed.
Lemma nosyn_eval_eq o a b : nosyn (eval_eq o a b). Proof. unfold eval_eq; ns_walk. Qed.
Lemma nosyn_eval_and a b : nosyn (eval_and a b). Proof. unfold eval_and; ns_walk. Qed.
Lemma nosyn_eval_or a b : nosyn (eval_or a b). Proof. unfold eval_or; ns_walk. Qed.
Lemma nosyn_eval_pow a b : nosyn (eval_pow a b). Proof. unfold eval_pow; ns_walk. Qed.
Lemma nosyn_expect_number v : nosyn (expect_number v). Proof. unfold expect_number; ns_walk. Qed.
#[local] Hint Resolve nosyn_eval_unary nosyn_eval_addsub nosyn_eval_muldiv nosyn_eval_eq nosyn_eval_and
  nosyn_eval_or nosyn_eval_pow nosyn_expect_number : nsdb.

Section NosynExpr.
  Variable fuel : nat.
  Variable rec : M value.
  Hypothesis Hrec : nosyn rec.
  Hint Resolve Hrec : nsdb.

  Lemma nosyn_bind_arguments args : forall i n b, nosyn (bind_arguments rec args i n b).
  Proof. induction args as [|a args IH]; intros i n b; cbn [bind_arguments]; ns_walk. Qed.

  Lemma nosyn_call_body : nosyn (call_body rec).
  Proof.
    intros s. unfold call_body. pose proof (Hrec s) as H1.
    destruct (rec s) as [[v|e l|p| |] s1]; cbn [fst] in *; try exact I.
    - pose proof (nosyn_pop_fn s1) as H2.
      destruct (pop_function_call s1) as [[u|e2 l2|p2| |] s2]; cbn [fst] in *; try exact I; exact H2.
    - pose proof (nosyn_pop_fn s1) as H2.
      destruct (pop_function_call s1) as [[u|e2 l2|p2| |] s2]; cbn [fst] in *; try exact I;
        [destruct e; try exact I; exact H1 | exact H2].
  Qed.
  Hint Resolve nosyn_bind_arguments nosyn_call_body : nsdb.

  Lemma nosyn_array_index : nosyn (evaluate_array_index fuel rec).
  Proof. unfold evaluate_array_index; ns_walk. Qed.
  Lemma nosyn_unary_arg : nosyn (unary_number_function_arg rec).
  Proof. unfold unary_number_function_arg; ns_walk. Qed.
  Hint Resolve nosyn_array_index nosyn_unary_arg : nsdb.
  Lemma nosyn_user_function_call name : nosyn (user_function_call rec name).
  Proof. unfold user_function_call; ns_walk. Qed.
  Hint Resolve nosyn_user_function_call : nsdb.
  Lemma nosyn_function_call name : nosyn (function_call rec name).
  Proof. unfold function_call; ns_walk. Qed.
  Hint Resolve nosyn_function_call : nsdb.
  Lemma nosyn_expression_term : nosyn (expression_term fuel rec).
  Proof. unfold expression_term; ns_walk. Qed.
  Hint Resolve nosyn_expression_term : nsdb.
  Lemma nosyn_parenthesized : nosyn (parenthesized_expression fuel rec).
  Proof. unfold parenthesized_expression; ns_walk. Qed.
  Hint Resolve nosyn_parenthesized : nsdb.
  Lemma nosyn_unary_operator : nosyn (unary_operator fuel rec).
  Proof. unfold unary_operator; ns_walk. Qed.

  Lemma nosyn_tier {O} (g : M (option O)) (operand : M value) (ap : O -> value -> value -> M value) :
    nosyn g -> nosyn operand -> (forall o a b, nosyn (ap o a b)) -> nosyn (tier fuel g operand ap).
  Proof. intros Hg Ho Ha. unfold tier; ns_walk; auto. Qed.

  Lemma nosyn_accept_as {O} t (o : O) : nosyn (accept_as t o).
  Proof. unfold accept_as; ns_walk. Qed.

  Lemma nosyn_logical_or : nosyn (logical_or_expression fuel rec).
  Proof.
    unfold logical_or_expression, logical_and_expression, equality_expression,
      plus_or_minus_expression, multiply_or_divide_expression, exponent_expression.
    repeat (apply nosyn_tier;
            [ first [apply nosyn_accept_as | apply nosyn_try] | | intros; ns_leaf ]).
    apply nosyn_unary_operator.
  Qed.
End NosynExpr.

Lemma nosyn_evaluate_expression fuel : forall n, nosyn (evaluate_expression fuel n).
Proof.
  induction fuel as [|k IH]; intros n; cbn [evaluate_expression].
  - apply nosyn_out_of_fuel.
  - destruct (Nat.eqb n max_nesting); [apply nosyn_fail; intros ?; discriminate|].
    apply nosyn_logical_or; apply IH.
Qed.
#[local] Hint Resolve nosyn_evaluate_expression : nsdb.

Section NosynStmt.
  Variable fuel : nat.
  Variable nest : nat.
  Variable rec : M unit.
  Hypothesis Hrec : nosyn rec.
  Hint Resolve Hrec : nsdb.

  Lemma nosyn_expr : nosyn (expr fuel nest). Proof. unfold expr; ns_leaf. Qed.
  Hint Resolve nosyn_expr : nsdb.
  Lemma nosyn_array_index_expr : nosyn (evaluate_array_index fuel (expr fuel nest)).
  Proof. apply nosyn_array_index, nosyn_expr. Qed.
  Hint Resolve nosyn_array_index_expr : nsdb.
  Lemma nosyn_optional_index : nosyn (parse_optional_array_index fuel nest).
  Proof. unfold parse_optional_array_index; ns_walk. Qed.
  Hint Resolve nosyn_optional_index : nsdb.
  Lemma nosyn_await : nosyn rewind_program_and_await_input.
  Proof. unfold rewind_program_and_await_input; ns_walk. Qed.
  Lemma nosyn_break : nosyn break_at_current_location.
  Proof. unfold break_at_current_location; ns_walk. Qed.
  Lemma nosyn_goto_stmt : nosyn evaluate_goto_statement.
  Proof. unfold evaluate_goto_statement; ns_walk. Qed.
  Lemma nosyn_gosub_stmt : nosyn evaluate_gosub_statement.
  Proof. unfold evaluate_gosub_statement; ns_walk. Qed.
  Hint Resolve nosyn_await nosyn_break nosyn_goto_stmt nosyn_gosub_stmt : nsdb.
  Lemma nosyn_stmt_or_goto : nosyn (statement_or_goto_line_number rec).
  Proof. unfold statement_or_goto_line_number; ns_walk. Qed.
  Hint Resolve nosyn_stmt_or_goto : nsdb.
  Lemma nosyn_if : nosyn (evaluate_if_statement fuel nest rec).
  Proof. unfold evaluate_if_statement; ns_walk. Qed.
  Lemma nosyn_assign lv v : nosyn (assign_value lv v).
  Proof. unfold assign_value; ns_walk. Qed.
  Hint Resolve nosyn_if nosyn_assign : nsdb.
  Lemma nosyn_assignment sym : nosyn (evaluate_assignment_statement fuel nest sym).
  Proof. unfold evaluate_assignment_statement; ns_walk. Qed.
  Hint Resolve nosyn_assignment : nsdb.
  Lemma nosyn_let : nosyn (evaluate_let_statement fuel nest).
  Proof. unfold evaluate_let_statement; ns_walk. Qed.
  Lemma nosyn_parse_lvalue : nosyn (parse_lvalue fuel nest).
  Proof. unfold parse_lvalue; ns_walk. Qed.
  Hint Resolve nosyn_let nosyn_parse_lvalue : nsdb.
  Lemma nosyn_read : nosyn (evaluate_read_statement fuel nest).
  Proof. unfold evaluate_read_statement; ns_walk. Qed.
  Lemma nosyn_take_input : nosyn take_input.
  Proof. unfold take_input; ns_walk. Qed.
  Hint Resolve nosyn_read nosyn_take_input : nsdb.
  Lemma nosyn_input : nosyn (evaluate_input_statement fuel nest).
  Proof. unfold evaluate_input_statement; ns_walk. Qed.
  Lemma nosyn_dim : nosyn (evaluate_dim_statement fuel nest).
  Proof. unfold evaluate_dim_statement; ns_walk. Qed.
  Lemma nosyn_print : nosyn (evaluate_print_statement fuel nest).
  Proof. unfold evaluate_print_statement; ns_walk. Qed.
  Lemma nosyn_for : nosyn (evaluate_for_statement fuel nest).
  Proof. unfold evaluate_for_statement; ns_walk. Qed.
  Lemma nosyn_next_stmt : nosyn evaluate_next_statement.
  Proof. unfold evaluate_next_statement; ns_walk. Qed.
  Lemma nosyn_def : nosyn (evaluate_def_statement fuel).
  Proof. unfold evaluate_def_statement; ns_walk. Qed.
  Hint Resolve nosyn_input nosyn_dim nosyn_print nosyn_for nosyn_next_stmt nosyn_def : nsdb.

  Lemma nosyn_statement_body : nosyn (evaluate_statement_body fuel nest rec).
  Proof. unfold evaluate_statement_body; ns_walk. Qed.
End NosynStmt.

Lemma nosyn_evaluate_statement fuel : forall n, nosyn (evaluate_statement fuel n).
Proof.
  induction fuel as [|k IH]; intros n; cbn [evaluate_statement].
  - apply nosyn_out_of_fuel.
  - destruct (Nat.eqb n max_nesting); [apply nosyn_fail; intros ?; discriminate|].
    apply nosyn_statement_body; apply IH.
Qed.
#[local] Hint Resolve nosyn_evaluate_statement : nsdb.

Theorem nosyn_run_next_statement fuel : nosyn (run_next_statement fuel).
Proof. unfold run_next_statement, return_to_idle_state; ns_walk. Qed.

(* ------------------------------------------------------------------ *)
(* 1. Break, then CONT, while the program is running *)

Definition drain (s : interp) : interp := set_outputs [] s.

Definition CONT : bytes := bs "CONT".

(* what the host's break call does (before the output is taken) *)
Lemma host_break_eq s :
  host_break s =
  (Ok tt, imm_reset [] (set_breakpoint (numbered_of (loc s))
            (set_outputs (outputs s ++ [OBreak (loc_line (loc s))]) (set_state Idle s)))).
Proof. reflexivity. Qed.

(* the state after a break at token [i] of line [n], output taken *)
Definition broken (n : N) (i : nat) (s : interp) : interp :=
  mkinterp (st_toks s) (st_keys s) [] imm0 (Some (n, i)) (stack s) (loops s) (data_it s) (functions s)
           (input s) [] Idle (rng s) (variables s) (arrays s)
           (enable_warnings s) (enable_tracing s) (pow_oracle s) 0.

Lemma step_break fuel s n :
  state s = Running \/ state s = AwaitingInput -> loc_line (loc s) = Some n ->
  step fuel s HBreak =
  (Some (render_row (Ok tt) None (outputs s ++ [OBreak (Some n)]) (broken n (loc_idx (loc s)) s)),
   broken n (loc_idx (loc s)) s).
Proof.
  intros Hst Hl. unfold step.
  assert (Hleg : legal s HBreak = true) by (unfold legal; destruct Hst as [-> | ->]; reflexivity).
  rewrite Hleg. cbn [negb]. rewrite host_break_eq, make_row_render.
  unfold imm_reset, numbered_of, broken. cbn [loc outputs set_reads set_state set_outputs set_breakpoint
    breakpoint]. rewrite Hl. reflexivity.
Qed.

(* CONT at a pending breakpoint: restore the cursor, clear the breakpoint and
   the immediate line, and run the next statement *)
Lemma evaluate_impl_CONT fuel s p :
  state s = Idle -> breakpoint s = Some p ->
  evaluate_impl fuel CONT s =
  run_next_statement fuel (set_breakpoint None (set_loc (loc_of_numbered p) (set_immediate [] s))).
Proof.
  intros Hidle Hbp. unfold evaluate_impl, CONT. rewrite bind_get, Hidle.
  rewrite set_imm_is_modify, bind_modify, command_of_CONT.
  cbn [process_command]. unfold continue_from_breakpoint.
  rewrite set_imm_is_modify, bind_assoc, bind_modify, bind_assoc, bind_get.
  assert (H : breakpoint (imm_reset [] (imm_reset [] s)) = Some p)
    by (unfold imm_reset; rewrite Hbp; cbn; rewrite Hbp; exact Hbp).
  rewrite H, bind_modify. f_equal.
  unfold imm_reset. rewrite Hbp. cbn [breakpoint set_loc set_immediate]. rewrite Hbp.
  destruct s; reflexivity.
Qed.

(* [run_next_statement] overwrites the host-visible state first *)
Lemma rns_state fuel s1 s2 :
  set_state Running s1 = set_state Running s2 -> run_next_statement fuel s1 = run_next_statement fuel s2.
Proof. intros H. unfold run_next_statement. rewrite !bind_modify, H. reflexivity. Qed.

(* the source text of the call only matters for tokenizer errors *)
Lemma caret_text_line (r : res unit) line1 line2 s :
  ok_res r -> caret_text r line1 s = caret_text r line2 s.
Proof.
  intros H. unfold caret_text. destruct r as [u|e l|p| |]; try reflexivity.
  unfold render_caret. destruct e; cbn in H; try contradiction; destruct line1, line2; reflexivity.
Qed.

Lemma ok_res_postprocess {A} (x : res A * interp) : ok_res (fst x) -> ok_res (fst (postprocess x)).
Proof. destruct x as [[a|e l|p| |] s]; cbn; auto. Qed.

Lemma render_row_line r line1 line2 outs s :
  ok_res r -> render_row r line1 outs s = render_row r line2 outs s.
Proof. intros H. unfold render_row. rewrite (caret_text_line r line1 line2 s H). reflexivity. Qed.

(* the state from which break-then-CONT resumes is the interrupted state *)
Lemma resume_state s n :
  state s = Running \/ state s = AwaitingInput ->
  loc_line (loc s) = Some n -> breakpoint s = None -> immediate s = [] -> outputs s = [] ->
  set_state Running
    (set_breakpoint None (set_loc (loc_of_numbered (n, loc_idx (loc s)))
       (set_immediate [] (set_reads 0 (broken n (loc_idx (loc s)) s)))))
  = set_state Running (set_reads 0 s).
Proof.
  intros _ Hl Hbp Himm Hout. unfold broken, loc_of_numbered.
  destruct s as [tk ks im [ln li] bp st lp di fs inp outs stt rg vs ars w tr orc rd].
  cbn in *. subst. reflexivity.
Qed.

(* Theorem 1.  The complete states after break+CONT and after a plain
   continue are equal, the two rows are equal in every field, and the break
   call itself shows exactly the BREAK notice and an idle interpreter. *)
Theorem break_cont_running fuel s n :
  state s = Running -> loc_line (loc s) = Some n ->
  breakpoint s = None -> immediate s = [] -> outputs s = [] ->
  let '(rb, s1) := step fuel s HBreak in
  let '(rc, s2) := step fuel s1 (HLine CONT) in
  let '(r, s') := step fuel s HCont in
  s2 = s' /\ rc = r
  /\ exists row, rb = Some row
       /\ r_outputs row = outputs_text [OBreak (Some n)]
       /\ r_state row = show_state Idle
       /\ r_outcome row = bs "ok".
Proof.
  intros Hst Hl Hbp Himm Hout.
  rewrite (step_break fuel s n (or_introl Hst) Hl).
  set (sb := broken n (loc_idx (loc s)) s).
  unfold step at 1. change (legal sb (HLine CONT)) with true. cbn [negb].
  unfold start_evaluating.
  rewrite (evaluate_impl_CONT fuel (set_reads 0 sb) (n, loc_idx (loc s))) by reflexivity.
  rewrite (rns_state fuel _ (set_reads 0 s))
    by (apply resume_state; auto).
  unfold step. unfold legal. rewrite Hst. cbn [negb].
  unfold continue_evaluating. change (state (set_reads 0 s)) with (state s). rewrite Hst.
  pose proof (ok_res_postprocess _ (nosyn_run_next_statement fuel (set_reads 0 s))) as Hok.
  destruct (postprocess (run_next_statement fuel (set_reads 0 s))) as [r s1]. cbn [fst] in Hok.
  rewrite !make_row_render.
  split; [reflexivity|]. split; [f_equal; apply render_row_line; exact Hok|].
  eexists. split; [reflexivity|]. rewrite Hout. repeat split.
Qed.

(* the same as one equation between host calls *)
Corollary break_cont_is_continue fuel s n :
  state s = Running -> loc_line (loc s) = Some n ->
  breakpoint s = None -> immediate s = [] -> outputs s = [] ->
  step fuel (snd (step fuel s HBreak)) (HLine CONT) = step fuel s HCont.
Proof.
  intros Hst Hl Hbp Himm Hout.
  pose proof (break_cont_running fuel s n Hst Hl Hbp Himm Hout) as H.
  destruct (step fuel s HBreak) as [rb s1]. cbn [snd].
  destruct (step fuel s1 (HLine CONT)) as [rc s2].
  destruct (step fuel s HCont) as [r s'].
  destruct H as (-> & -> & _). reflexivity.
Qed.

(* ------------------------------------------------------------------ *)
(* 1b. The same at the level of observations (outcome, output records, state) *)

Lemma call_obs_break fuel s n :
  state s = Running \/ state s = AwaitingInput -> loc_line (loc s) = Some n ->
  call_obs fuel s HBreak = Some (Ok tt, outputs s ++ [OBreak (Some n)], broken n (loc_idx (loc s)) s).
Proof.
  intros Hst Hl. unfold call_obs.
  assert (Hleg : legal s HBreak = true) by (unfold legal; destruct Hst as [-> | ->]; reflexivity).
  rewrite Hleg. cbn [negb]. rewrite host_break_eq. unfold pack.
  unfold imm_reset, numbered_of, broken. cbn [loc outputs set_reads set_state set_outputs set_breakpoint
    breakpoint]. rewrite Hl. reflexivity.
Qed.

Lemma step_snd_call_obs fuel s op :
  snd (step fuel s op) = match call_obs fuel s op with Some (_, _, s') => s' | None => silent_step s op end.
Proof. rewrite step_is_call_obs. destruct (call_obs fuel s op) as [[[r o] s']|]; reflexivity. Qed.

Theorem break_cont_obs fuel s n :
  state s = Running -> loc_line (loc s) = Some n ->
  breakpoint s = None -> immediate s = [] -> outputs s = [] ->
  call_obs fuel (broken n (loc_idx (loc s)) s) (HLine CONT) = call_obs fuel s HCont.
Proof.
  intros Hst Hl Hbp Himm Hout.
  set (sb := broken n (loc_idx (loc s)) s).
  unfold call_obs. change (legal sb (HLine CONT)) with true. unfold legal. rewrite Hst. cbn [negb].
  unfold start_evaluating.
  rewrite (evaluate_impl_CONT fuel (set_reads 0 sb) (n, loc_idx (loc s))) by reflexivity.
  rewrite (rns_state fuel _ (set_reads 0 s)) by (apply resume_state; auto).
  unfold continue_evaluating. change (state (set_reads 0 s)) with (state s). rewrite Hst. reflexivity.
Qed.

(* ------------------------------------------------------------------ *)
(* 2. Break, then CONT, while the program is awaiting input.

   [awaiting_ok s]: the state every INPUT suspension produces (C08_await): the
   cursor is ON the INPUT token and no reply is pending. *)

Definition awaiting_ok (s : interp) : Prop :=
  state s = AwaitingInput /\ line_exists s (loc s)
  /\ nth_error (cur_toks s) (loc_idx (loc s)) = Some TInput /\ input s = None.

Lemma rns_at_token fuel s t :
  line_exists s (loc s) -> nth_error (cur_toks s) (loc_idx (loc s)) = Some t ->
  run_next_statement fuel s = (evaluate_statement fuel 0 ;;; after_statement) (bump (set_state Running s)).
Proof.
  intros Hl Hi. unfold run_next_statement. rewrite StoreProofs.bind_modify.
  set (s1 := set_state Running s).
  assert (Hl1 : line_exists s1 (loc s1)) by exact Hl.
  rewrite Safety.bind_run, (has_next_token_eq s1 Hl1).
  change (cur_toks s1) with (cur_toks s). change (loc s1) with (loc s). rewrite Hi. reflexivity.
Qed.

Lemma max_nesting_pos : 0 < max_nesting.
Proof. vm_compute. repeat constructor. Qed.

(* re-executing the suspended INPUT: the same request again *)
Lemma rns_awaiting fuel s :
  line_exists s (loc s) -> nth_error (cur_toks s) (loc_idx (loc s)) = Some TInput -> input s = None ->
  1 <= fuel ->
  run_next_statement fuel s
  = (Ok tt, set_reads (4 + reads s) (set_state AwaitingInput (set_outputs (outputs s ++ trace_of s) s))).
Proof.
  intros Hl Hi Hin Hf. rewrite (rns_at_token fuel s TInput Hl Hi).
  set (s1 := bump (set_state Running s)).
  assert (Hct : fst (cur_tokens s1) = Ok (cur_toks s)).
  { rewrite (cur_tokens_eq s1); [reflexivity|exact Hl]. }
  rewrite Safety.bind_run.
  rewrite (input_awaits fuel 0 s1 (cur_toks s) Hct Hi Hin Hf max_nesting_pos).
  set (s2 := set_reads _ _). unfold after_statement.
  assert (Hl2 : line_exists s2 (loc s2)) by exact Hl.
  rewrite Safety.bind_run, (has_next_token_eq s2 Hl2).
  change (cur_toks s2) with (cur_toks s). change (loc s2) with (loc s). rewrite Hi.
  subst s2 s1. unfold bump. cbn [ret]. f_equal.
  destruct s as [? ? ? [? ?] ? ? ? ? ? ? ? ? ? ? ? ? ? ? ?]; reflexivity.
Qed.

Theorem break_cont_awaiting fuel s n :
  awaiting_ok s -> loc_line (loc s) = Some n ->
  breakpoint s = None -> immediate s = [] -> outputs s = [] -> 1 <= fuel ->
  call_obs fuel (broken n (loc_idx (loc s)) s) (HLine CONT)
  = Some (Ok tt, trace_of s, set_reads 4 s).
Proof.
  intros (Hst & Hle & Hi & Hin) Hl Hbp Himm Hout Hf.
  set (sb := broken n (loc_idx (loc s)) s).
  unfold call_obs. change (legal sb (HLine CONT)) with true. cbn [negb].
  unfold start_evaluating.
  rewrite (evaluate_impl_CONT fuel (set_reads 0 sb) (n, loc_idx (loc s))) by reflexivity.
  rewrite (rns_state fuel _ (set_reads 0 s)) by (apply resume_state; auto).
  rewrite (rns_awaiting fuel (set_reads 0 s)) by assumption.
  cbn [postprocess pack]. change (outputs (set_reads 0 s)) with (outputs s). rewrite Hout.
  change (trace_of (set_reads 0 s)) with (trace_of s). cbn [app outputs set_reads set_state set_outputs].
  f_equal. f_equal.
  destruct s as [? ? ? [? ?] ? ? ? ? ? ? ? ? ? ? ? ? ? ? ?]; cbn in *; subst; reflexivity.
Qed.

(* ------------------------------------------------------------------ *)
(* 3. Schedules: any choice of turn boundaries at which the host breaks in and
      then issues CONT.

   The program is driven by [HCont] / [HReply] calls ("the plain run").  A
   schedule replaces some [HCont] by [HBreak; CONT] (a break while Running:
   CONT executes the statement the replaced call would have executed) and
   inserts [HBreak; CONT] at some boundaries where the program awaits input
   (CONT re-issues the request).  What the program shows — its Print / Reenter
   / ExtraIgnored / Warning records and its errors, i.e. everything but BREAK
   notices and trace records — and its final state are those of the plain run. *)

Definition prog_out (o : output) : bool :=
  match o with OBreak _ | OTrace _ => false | _ => true end.

Definition shown (x : option (res unit * list output * interp))
  : list output * list (ierror * option location) :=
  match x with
  | Some (r, outs, _) => (filter prog_out outs, match r with Err e l => [(e, l)] | _ => [] end)
  | None => ([], [])
  end.

Definition cat2 {A B} (x y : list A * list B) : list A * list B := (fst x ++ fst y, snd x ++ snd y).

Fixpoint transcript (fuel : nat) (s : interp) (ops : list hostop)
  : list output * list (ierror * option location) :=
  match ops with
  | [] => ([], [])
  | op :: r => cat2 (shown (call_obs fuel s op)) (transcript fuel (snd (step fuel s op)) r)
  end.

Definition drive (op : hostop) : Prop := op = HCont \/ exists t, op = HReply t.

Inductive sched (fuel : nat) : interp -> list hostop -> list hostop -> Prop :=
| sched_nil s : sched fuel s [] []
| sched_op s op ops ops' :
    drive op -> sched fuel (snd (step fuel s op)) ops ops' -> sched fuel s (op :: ops) (op :: ops')
| sched_break_running s ops ops' :
    state s = Running -> sched fuel (snd (step fuel s HCont)) ops ops' ->
    sched fuel s (HCont :: ops) (HBreak :: HLine CONT :: ops')
| sched_break_awaiting s ops ops' :
    awaiting_ok s -> sched fuel s ops ops' ->
    sched fuel s ops (HBreak :: HLine CONT :: ops').

(* every call of the plain run returns a value or an error (no Panic — see
   C01 — and none of the model's own OutOfFuel / OracleMiss) *)
Fixpoint values (fuel : nat) (s : interp) (ops : list hostop) : Prop :=
  match ops with
  | [] => True
  | op :: r => match call_obs fuel s op with Some (x, _, _) => is_val x | None => True end
               /\ values fuel (snd (step fuel s op)) r
  end.

(* states equal but for the hook counter *)
Definition eqr (s t : interp) : Prop := set_reads 0 s = set_reads 0 t.

Lemma eqr_refl s : eqr s s. Proof. reflexivity. Qed.

Lemma eqr_state s t : eqr s t -> state s = state t.
Proof. intros H. exact (f_equal state H). Qed.

Lemma call_obs_eqr fuel s t op : eqr s t -> call_obs fuel s op = call_obs fuel t op.
Proof.
  intros H. unfold call_obs, legal. rewrite (eqr_state _ _ H).
  assert (Ho : pow_oracle s = pow_oracle t) by exact (f_equal pow_oracle H).
  unfold eqr in H. rewrite H, Ho. reflexivity.
Qed.

Lemma silent_step_eqr s t op : eqr s t -> eqr (silent_step s op) (silent_step t op).
Proof.
  intros H. unfold silent_step, legal. rewrite (eqr_state _ _ H).
  assert (Ho : pow_oracle s = pow_oracle t) by exact (f_equal pow_oracle H).
  destruct op; destruct (state t); try exact H; try (unfold eqr; rewrite Ho; reflexivity).
  all: unfold eqr in *;
    change (set_reads 0 (set_flags w t0 s)) with (set_flags w t0 (set_reads 0 s));
    change (set_reads 0 (set_flags w t0 t)) with (set_flags w t0 (set_reads 0 t)); rewrite H; reflexivity.
Qed.

Lemma step_eqr fuel s t op : eqr s t -> eqr (snd (step fuel s op)) (snd (step fuel t op)).
Proof.
  intros H. rewrite !step_snd_call_obs, (call_obs_eqr fuel s t op H).
  destruct (call_obs fuel t op) as [[[r o] s']|]; [apply eqr_refl|apply silent_step_eqr, H].
Qed.

Lemma transcript_eqr fuel ops : forall s t, eqr s t -> transcript fuel s ops = transcript fuel t ops.
Proof.
  induction ops as [|op ops IH]; intros s t H; cbn [transcript]; [reflexivity|].
  rewrite (call_obs_eqr fuel s t op H), (IH _ _ (step_eqr fuel s t op H)). reflexivity.
Qed.

Lemma run_state_eqr fuel ops : forall s t, eqr s t -> eqr (run_state fuel s ops) (run_state fuel t ops).
Proof.
  induction ops as [|op ops IH]; intros s t H; cbn [run_state]; [exact H|].
  apply IH, step_eqr, H.
Qed.

(* the invariant of the plain run *)
Definition Inv (s : interp) : Prop :=
  outputs s = [] /\ (state s = Running \/ state s = AwaitingInput -> J s).

Lemma J_set_reads r s : J s -> J (set_reads r s).
Proof. apply J_ext; reflexivity. Qed.
Lemma J_set_outputs o s : J s -> J (set_outputs o s).
Proof. apply J_ext; reflexivity. Qed.

Lemma Inv_step fuel s op :
  Inv s -> drive op ->
  match call_obs fuel s op with Some (x, _, _) => is_val x | None => True end ->
  Inv (snd (step fuel s op)).
Proof.
  intros [Hout HJ] Hd Hv. rewrite step_snd_call_obs. unfold call_obs in *.
  destruct (legal s op) eqn:Hleg; cbn [negb] in *.
  2:{ unfold silent_step. rewrite Hleg. split; assumption. }
  destruct Hd as [->|[text ->]].
  - unfold legal in Hleg. destruct (state s) eqn:Hst; try discriminate.
    specialize (HJ (or_introl eq_refl)).
    pose proof (continue_keeps_J fuel (set_reads 0 s) (J_set_reads 0 s HJ) Hst) as H.
    destruct (continue_evaluating fuel (set_reads 0 s)) as [r s1]. cbn [pack] in *.
    split; [reflexivity|]. cbn [state set_outputs]. intros Hs.
    apply J_set_outputs.
    destruct r as [u|e l|p| |]; cbn in Hv; try contradiction.
    + apply H. destruct Hs as [Hs|Hs]; rewrite Hs; discriminate.
    + rewrite H in Hs. destruct Hs; discriminate.
  - unfold legal in Hleg. destruct (state s) eqn:Hst; try discriminate.
    specialize (HJ (or_intror eq_refl)).
    pose proof (reply_keeps_J text (set_reads 0 s) (J_set_reads 0 s HJ)) as H.
    destruct (provide_input text (set_reads 0 s)) as [r s1]. cbn [pack snd] in *.
    split; [reflexivity|]. intros _. apply J_set_outputs, H.
Qed.

Lemma filter_break n : filter prog_out [OBreak n] = [].
Proof. reflexivity. Qed.

Lemma filter_trace s : filter prog_out (trace_of s) = [].
Proof. unfold trace_of. destruct (enable_tracing s); [destruct (loc_line (loc s))|]; reflexivity. Qed.

Lemma J_numbered s : J s -> exists n, loc_line (loc s) = Some n.
Proof. intros HJ. pose proof (j_loc _ HJ) as H. unfold numbered in H. destruct (loc_line (loc s)); [eauto|congruence]. Qed.

Theorem break_schedule fuel : forall s ops ops',
  sched fuel s ops ops' -> 1 <= fuel ->
  forall t, eqr t s -> Inv s -> values fuel s ops ->
  transcript fuel t ops' = transcript fuel s ops
  /\ eqr (run_state fuel t ops') (run_state fuel s ops).
Proof.
  intros s ops ops' Hs Hf. induction Hs as [s|s op ops ops' Hd Hs IH|s ops ops' Hst Hs IH|s ops ops' Haw Hs IH];
    intros t Ht Hinv Hval.
  - split; [reflexivity|exact Ht].
  - destruct Hval as [Hv Hval]. cbn [transcript run_state].
    rewrite (call_obs_eqr fuel t s op Ht).
    destruct (IH (snd (step fuel t op)) (step_eqr fuel t s op Ht) (Inv_step fuel s op Hinv Hd Hv) Hval) as [I1 I2].
    rewrite I1. split; [reflexivity|exact I2].
  - destruct Hval as [Hv Hval]. destruct Hinv as [Hout HJ].
    pose proof (HJ (or_introl Hst)) as HJs. destruct (J_numbered s HJs) as [n Hl].
    cbn [transcript run_state].
    (* the break call *)
    rewrite (call_obs_eqr fuel t s HBreak Ht), (call_obs_break fuel s n (or_introl Hst) Hl).
    assert (Eb : eqr (snd (step fuel t HBreak)) (broken n (loc_idx (loc s)) s)).
    { rewrite step_snd_call_obs, (call_obs_eqr fuel t s HBreak Ht), (call_obs_break fuel s n (or_introl Hst) Hl).
      apply eqr_refl. }
    set (tb := snd (step fuel t HBreak)) in *.
    (* the CONT call is the replaced HCont call *)
    rewrite (call_obs_eqr fuel tb _ (HLine CONT) Eb).
    rewrite (break_cont_obs fuel s n Hst Hl (j_bp _ HJs) (j_imm _ HJs) Hout).
    assert (Ec : eqr (snd (step fuel tb (HLine CONT))) (snd (step fuel s HCont))).
    { rewrite !step_snd_call_obs, (call_obs_eqr fuel tb _ (HLine CONT) Eb),
        (break_cont_obs fuel s n Hst Hl (j_bp _ HJs) (j_imm _ HJs) Hout).
      destruct (call_obs fuel s HCont) as [[[r o] s']|] eqn:Ec; [apply eqr_refl|].
      unfold call_obs, legal in Ec. rewrite Hst in Ec. cbn in Ec.
      destruct (continue_evaluating fuel (set_reads 0 s)); discriminate. }
    destruct (IH _ Ec (Inv_step fuel s HCont (conj Hout HJ) (or_introl eq_refl) Hv) Hval) as [I1 I2].
    rewrite I1. rewrite Hout. cbn [app shown]. rewrite filter_break.
    split; [|exact I2].
    unfold cat2. cbn [fst snd app]. reflexivity.
  - destruct Hinv as [Hout HJ]. destruct Haw as (Hst & Hle & Hi & Hin).
    pose proof (HJ (or_intror Hst)) as HJs. destruct (J_numbered s HJs) as [n Hl].
    cbn [transcript run_state].
    rewrite (call_obs_eqr fuel t s HBreak Ht), (call_obs_break fuel s n (or_intror Hst) Hl).
    assert (Eb : eqr (snd (step fuel t HBreak)) (broken n (loc_idx (loc s)) s)).
    { rewrite step_snd_call_obs, (call_obs_eqr fuel t s HBreak Ht), (call_obs_break fuel s n (or_intror Hst) Hl).
      apply eqr_refl. }
    set (tb := snd (step fuel t HBreak)) in *.
    assert (Haw : awaiting_ok s) by (repeat split; assumption).
    rewrite (call_obs_eqr fuel tb _ (HLine CONT) Eb).
    rewrite (break_cont_awaiting fuel s n Haw Hl (j_bp _ HJs) (j_imm _ HJs) Hout Hf).
    assert (Ec : eqr (snd (step fuel tb (HLine CONT))) s).
    { rewrite step_snd_call_obs, (call_obs_eqr fuel tb _ (HLine CONT) Eb),
        (break_cont_awaiting fuel s n Haw Hl (j_bp _ HJs) (j_imm _ HJs) Hout Hf). reflexivity. }
    destruct (IH _ Ec (conj Hout HJ) Hval) as [I1 I2].
    rewrite I1. rewrite Hout. cbn [app shown]. rewrite filter_break, filter_trace.
    split; [|exact I2]. unfold cat2. cbn [fst snd app]. destruct (transcript fuel s ops); reflexivity.
Qed.

(* from RUN: the state after a RUN line that left the program going satisfies
   the invariant, so the theorem applies to every program started by RUN *)
Theorem Inv_after_run fuel s :
  state s = Idle ->
  match call_obs fuel s (HLine (bs "RUN")) with
  | Some (Ok _, _, s') => Inv s'
  | _ => True
  end.
Proof.
  intros Hidle. unfold call_obs, legal. rewrite Hidle. cbn [negb].
  pose proof (run_establishes_J fuel (set_reads 0 s) Hidle) as H.
  destruct (start_evaluating fuel (bs "RUN") (set_reads 0 s)) as [r s1]. cbn [pack].
  destruct r as [u|e l|p| |]; try exact I. destruct u.
  split; [reflexivity|]. cbn [state set_outputs]. intros Hs. apply J_set_outputs, H; [reflexivity|].
  destruct Hs as [Hs|Hs]; rewrite Hs; discriminate.
Qed.

(* ------------------------------------------------------------------ *)
(* 4. Inspection at a breakpoint.

   CONT reads the breakpoint and the runtime part of the state only: not the
   immediate line, not the cursor, not the hook counter.  So whatever was
   typed at the breakpoint — succeeding or failing — cannot change the
   continuation unless it changed the runtime part itself. *)

Definition norm (s : interp) : interp := set_reads 0 (set_loc imm0 (set_immediate [] s)).

Theorem cont_reads_runtime_only fuel s1 s2 :
  state s1 = Idle -> breakpoint s1 <> None -> norm s1 = norm s2 ->
  call_obs fuel s1 (HLine CONT) = call_obs fuel s2 (HLine CONT).
Proof.
  intros Hidle Hbp Hn.
  assert (Hidle2 : state s2 = Idle) by (rewrite <- Hidle; symmetry; exact (f_equal state Hn)).
  assert (Hbp2 : breakpoint s2 = breakpoint s1) by (symmetry; exact (f_equal breakpoint Hn)).
  destruct (breakpoint s1) as [p|] eqn:Ebp; [|congruence].
  unfold call_obs, legal. rewrite Hidle, Hidle2. cbn [negb]. unfold start_evaluating.
  rewrite (evaluate_impl_CONT fuel (set_reads 0 s1) p) by assumption.
  rewrite (evaluate_impl_CONT fuel (set_reads 0 s2) p) by assumption.
  replace (set_breakpoint None (set_loc (loc_of_numbered p) (set_immediate [] (set_reads 0 s1))))
    with (set_breakpoint None (set_loc (loc_of_numbered p) (norm s1)))
    by (destruct s1; reflexivity).
  replace (set_breakpoint None (set_loc (loc_of_numbered p) (set_immediate [] (set_reads 0 s2))))
    with (set_breakpoint None (set_loc (loc_of_numbered p) (norm s2)))
    by (destruct s2; reflexivity).
  rewrite Hn. reflexivity.
Qed.

(* ... and the whole continuation after it *)
Corollary continuation_reads_runtime_only fuel s1 s2 ops :
  state s1 = Idle -> breakpoint s1 <> None -> norm s1 = norm s2 ->
  transcript fuel s1 (HLine CONT :: ops) = transcript fuel s2 (HLine CONT :: ops)
  /\ run_state fuel s1 (HLine CONT :: ops) = run_state fuel s2 (HLine CONT :: ops).
Proof.
  intros Hidle Hbp Hn. cbn [transcript run_state].
  pose proof (cont_reads_runtime_only fuel s1 s2 Hidle Hbp Hn) as H.
  rewrite !step_snd_call_obs, H.
  destruct (call_obs fuel s2 (HLine CONT)) as [[[r o] s']|] eqn:E; [split; reflexivity|].
  exfalso. assert (Hidle2 : state s2 = Idle) by (rewrite <- Hidle; symmetry; exact (f_equal state Hn)).
  unfold call_obs, legal in E. rewrite Hidle2 in E. cbn [negb] in E. cbv iota in E.
  destruct (start_evaluating fuel CONT (set_reads 0 s2)); discriminate.
Qed.
