(* Proofs/BreakCont.v — under construction *)
From Coq Require Import List NArith ZArith Bool Lia.
From Abasic Require Import Model.Bytes Model.Num Model.Token Model.Data Model.Lexer Gen.Tables
     Model.State Model.Eval Model.Interp Proofs.Monad Proofs.Frames Proofs.StoreProofs.
Import ListNotations.
