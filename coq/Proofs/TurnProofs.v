(* Proofs/TurnProofs.v — C09: one host call executes at most one statement.

   Observables of "a statement was executed" are its output records: a PRINT
   statement pushes exactly one Print record, INPUT at most one Reenter /
   ExtraIgnored record, STOP one Break record, and every evaluate_statement
   entry pushes one Trace record naming the current line (when tracing is on).
   Expressions (including user-function bodies, which are expressions) push
   nothing but Warning records.

     RQ   expression-level: only Warning records are appended
     R1   one simple statement: at most one shown record, no Trace record
     SQ L one statement entered on line L (an IF together with the single
          statement it selects): at most one shown record, and every Trace
          record names L
   Main results: one_statement_per_turn, continue_one_statement. *)
From Coq Require Import List NArith ZArith Bool Lia.
From Abasic Require Import Model.Bytes Model.Num Model.Token Model.Data Model.Lexer Gen.Tables
     Model.State Model.Eval Model.Interp Proofs.Monad Proofs.Frames Proofs.StoreProofs Proofs.Safety.
Import ListNotations.
Local Open Scope nat_scope.

Definition is_warning (o : output) : Prop := match o with OWarning _ _ => True | _ => False end.

(* records that show a statement was executed *)
Definition shows (o : output) : bool :=
  match o with OPrint _ | OReenter | OExtraIgnored | OBreak _ => true | _ => false end.

Definition trace_ok (L : option N) (o : output) : Prop :=
  match o with OTrace n => L = Some n | _ => True end.

Definition RQ (s : interp) (r : res unit) (s' : interp) : Prop :=
  exists new, outputs s' = outputs s ++ new /\ Forall is_warning new.

Lemma RQ_refl s r : RQ s r s.
Proof. exists []. rewrite app_nil_r. split; [reflexivity|constructor]. Qed.

Lemma RQ_any s r r' s' : RQ s r s' -> RQ s r' s'.
Proof. intros H; exact H. Qed.

Lemma RQ_ocat : ocat RQ.
Proof.
  split; try (intros; apply RQ_refl).
  intros a b c r (n1 & H1 & F1) (n2 & H2 & F2). exists (n1 ++ n2).
  rewrite H2, H1, app_assoc. split; [reflexivity|apply Forall_app; split; assumption].
Qed.

Lemma rq_modify_frame f : (forall s, outputs (f s) = outputs s) -> orel RQ (modify f).
Proof.
  intros H. apply orel_modify. intros s. exists []. rewrite app_nil_r, H. split; [reflexivity|constructor].
Qed.

Lemma rq_same {A} (m : M A) : (forall s, snd (m s) = s) -> orel RQ m.
Proof. intros H s. rewrite H. apply RQ_refl. Qed.

Ltac rq_frame := apply rq_modify_frame; intros; reflexivity.

Lemma rq_tokens_for_line l : orel RQ (tokens_for_line l).
Proof.
  apply rq_same. intros s. unfold tokens_for_line.
  destruct l as [n|]; [destruct (toks_get n (st_toks s))|]; reflexivity.
Qed.

Lemma rq_lift_res {A} (r : res A) : orel RQ (lift_res r).
Proof. apply rq_same. reflexivity. Qed.

Lemma rq_panic {A} p : orel RQ (@panic A p).
Proof. apply rq_same. reflexivity. Qed.

Create HintDb rqdb discriminated.
#[local] Hint Resolve rq_tokens_for_line rq_lift_res rq_panic : rqdb.

Ltac rq_leaf := first [ solve [ auto 3 with rqdb nocore ] | solve [ rq_frame ] ].
Ltac rq_walk := orel_walk RQ_ocat rq_leaf.

(* ---- token cursor ---- *)
Lemma rq_cur_tokens : orel RQ cur_tokens. Proof. unfold cur_tokens; rq_walk. Qed.
#[local] Hint Resolve rq_cur_tokens : rqdb.
Lemma rq_peek : orel RQ peek_next_token. Proof. unfold peek_next_token; rq_walk. Qed.
#[local] Hint Resolve rq_peek : rqdb.
Lemma rq_has_next : orel RQ has_next_token. Proof. unfold has_next_token; rq_walk. Qed.
Lemma rq_advance : orel RQ advance. Proof. unfold advance; rq_walk. Qed.
#[local] Hint Resolve rq_has_next rq_advance : rqdb.
Lemma rq_next_token : orel RQ next_token. Proof. unfold next_token; rq_walk. Qed.
#[local] Hint Resolve rq_next_token : rqdb.
Lemma rq_next_unwrapped : orel RQ next_unwrapped_token. Proof. unfold next_unwrapped_token; rq_walk. Qed.
#[local] Hint Resolve rq_next_unwrapped : rqdb.
Lemma rq_expect t : orel RQ (expect_next_token t). Proof. unfold expect_next_token; rq_walk. Qed.
Lemma rq_accept t : orel RQ (accept_next_token t). Proof. unfold accept_next_token; rq_walk. Qed.
Lemma rq_peek_is t : orel RQ (peek_is t). Proof. unfold peek_is; rq_walk. Qed.
Lemma rq_try {B} (g : token -> option B) : orel RQ (try_next_token g). Proof. unfold try_next_token; rq_walk. Qed.
#[local] Hint Resolve rq_expect rq_accept rq_peek_is rq_try : rqdb.
Lemma rq_discard : orel RQ discard_remaining_tokens. Proof. unfold discard_remaining_tokens; rq_walk. Qed.
Lemma rq_rewind_loop i e : orel RQ (rewind_loop i e).
Proof. induction i as [|i IH]; cbn [rewind_loop]; rq_walk. Qed.
#[local] Hint Resolve rq_discard rq_rewind_loop : rqdb.
Lemma rq_rewind e : orel RQ (rewind_before_token e). Proof. unfold rewind_before_token; rq_walk. Qed.
Lemma rq_get_line_number : orel RQ get_line_number. Proof. unfold get_line_number; rq_walk. Qed.
Lemma rq_is_else : orel RQ is_else_of_then_clause. Proof. unfold is_else_of_then_clause; rq_walk. Qed.
#[local] Hint Resolve rq_rewind rq_get_line_number rq_is_else : rqdb.

(* ---- values, arrays, data, output ---- *)
Lemma rq_variables_set n v : orel RQ (variables_set n v). Proof. unfold variables_set; rq_walk. Qed.
Lemma rq_variables_get n : orel RQ (variables_get n). Proof. unfold variables_get; rq_walk. Qed.
Lemma rq_find_var n : orel RQ (find_variable_value_in_stack n).
Proof. unfold find_variable_value_in_stack; rq_walk. Qed.
Lemma rq_reset_data : orel RQ reset_data_cursor. Proof. unfold reset_data_cursor; rq_walk. Qed.
#[local] Hint Resolve rq_variables_set rq_variables_get rq_find_var rq_reset_data : rqdb.
Lemma rq_push_warning m l : orel RQ (push_output (OWarning m l)).
Proof.
  unfold push_output. apply orel_modify. intros s. exists [OWarning m l]. split; [reflexivity|].
  constructor; [exact I|constructor].
Qed.
#[local] Hint Resolve rq_push_warning : rqdb.
Lemma rq_warn m : orel RQ (warn m). Proof. unfold warn; rq_walk. Qed.
#[local] Hint Resolve rq_warn : rqdb.
Lemma rq_maybe_warn n : orel RQ (maybe_warn_undeclared_array n).
Proof. unfold maybe_warn_undeclared_array; rq_walk. Qed.
Lemma rq_arrays_create n i : orel RQ (arrays_create n i). Proof. unfold arrays_create; rq_walk. Qed.
#[local] Hint Resolve rq_maybe_warn rq_arrays_create : rqdb.
Lemma rq_maybe_default n d : orel RQ (maybe_create_default_array n d).
Proof. unfold maybe_create_default_array; rq_walk. Qed.
#[local] Hint Resolve rq_maybe_default : rqdb.
Lemma rq_arrays_get n i : orel RQ (arrays_get n i). Proof. unfold arrays_get; rq_walk. Qed.
Lemma rq_arrays_set n i v : orel RQ (arrays_set n i v). Proof. unfold arrays_set; rq_walk. Qed.
Lemma rq_rng_rnd x : orel RQ (rng_rnd x). Proof. unfold rng_rnd; rq_walk. Qed.
#[local] Hint Resolve rq_arrays_get rq_arrays_set rq_rng_rnd : rqdb.

Lemma rq_next_data : orel RQ next_data_element.
Proof.
  intros s. unfold next_data_element.
  assert (K : forall d, RQ s (Ok tt) (set_data_it d s)) by (intros d; exists []; rewrite app_nil_r; split; [reflexivity|constructor]).
  assert (K0 : forall r, RQ s r s) by (intros r; exists []; rewrite app_nil_r; split; [reflexivity|constructor]).
  destruct (data_it s) as [d|].
  - destruct (data_next _ d); apply K.
  - destruct (data_chunks (st_keys s) (st_toks s)); try apply K0. destruct (data_next _ _); apply K.
Qed.
#[local] Hint Resolve rq_next_data : rqdb.

Lemma rq_eval_unary o v : orel RQ (eval_unary o v). Proof. unfold eval_unary; rq_walk. Qed.
Lemma rq_eval_addsub o a b : orel RQ (eval_addsub o a b). Proof. unfold eval_addsub; rq_walk. Qed.
Lemma rq_eval_muldiv o a b : orel RQ (eval_muldiv o a b). Proof. unfold eval_muldiv; rq_walk. Qed.
Lemma rq_eval_eq o a b : orel RQ (eval_eq o a b). Proof. unfold eval_eq; rq_walk. Qed.
Lemma rq_eval_and a b : orel RQ (eval_and a b). Proof. unfold eval_and; rq_walk. Qed.
Lemma rq_eval_or a b : orel RQ (eval_or a b). Proof. unfold eval_or; rq_walk. Qed.
Lemma rq_eval_pow a b : orel RQ (eval_pow a b). Proof. unfold eval_pow; rq_walk. Qed.
Lemma rq_expect_number v : orel RQ (expect_number v). Proof. unfold expect_number; rq_walk. Qed.
#[local] Hint Resolve rq_eval_unary rq_eval_addsub rq_eval_muldiv rq_eval_eq rq_eval_and rq_eval_or
  rq_eval_pow rq_expect_number : rqdb.

(* ---- control primitives: none of them touches the output ---- *)
Lemma rq_remove_loop sym : orel RQ (remove_loop_with_name sym). Proof. unfold remove_loop_with_name; rq_walk. Qed.
#[local] Hint Resolve rq_remove_loop : rqdb.
Lemma rq_start_loop sym a b c : orel RQ (start_loop sym a b c). Proof. unfold start_loop; rq_walk. Qed.
Lemma rq_end_loop sym : orel RQ (end_loop sym). Proof. unfold end_loop; rq_walk. Qed.
Lemma rq_goto n : orel RQ (goto_line_number n). Proof. unfold goto_line_number; rq_walk. Qed.
#[local] Hint Resolve rq_start_loop rq_end_loop rq_goto : rqdb.
Lemma rq_gosub n : orel RQ (gosub_line_number n). Proof. unfold gosub_line_number; rq_walk. Qed.
Lemma rq_return : orel RQ return_to_last_gosub. Proof. unfold return_to_last_gosub; rq_walk. Qed.
Lemma rq_define_function name args : orel RQ (define_function name args). Proof. unfold define_function; rq_walk. Qed.
Lemma rq_pop : orel RQ pop_function_call. Proof. unfold pop_function_call; rq_walk. Qed.
Lemma rq_push name b : orel RQ (push_function_call name b). Proof. unfold push_function_call; rq_walk. Qed.
Lemma rq_next_line : orel RQ next_line. Proof. unfold next_line; rq_walk. Qed.
Lemma rq_set_imm ts : orel RQ (set_and_goto_immediate_line ts).
Proof. unfold set_and_goto_immediate_line. apply rq_modify_frame. intros s. destruct (breakpoint s); reflexivity. Qed.
#[local] Hint Resolve rq_gosub rq_return rq_define_function rq_pop rq_push rq_next_line rq_set_imm : rqdb.
Lemma rq_program_break : orel RQ program_break_at_current_location.
Proof. unfold program_break_at_current_location; rq_walk. Qed.
Lemma rq_program_end : orel RQ program_end. Proof. unfold program_end; rq_walk. Qed.
#[local] Hint Resolve rq_program_break rq_program_end : rqdb.

(* ------------------------------------------------------------------ *)
(* expressions *)

Section ExprQ.
  Variable fuel : nat.
  Variable rec : M value.
  Hypothesis Hrec : orel RQ rec.

  Lemma rq_bind_arguments args : forall i n b, orel RQ (bind_arguments rec args i n b).
  Proof.
    induction args as [|a args IH]; intros i n b; cbn [bind_arguments];
      orel_walk RQ_ocat ltac:(first [ apply Hrec | apply IH | rq_leaf ]).
  Qed.

  Lemma rq_call_body : orel RQ (call_body rec).
  Proof.
    intros s. unfold call_body. pose proof (Hrec s) as H1.
    destruct (rec s) as [[v|e l|p| |] s1]; cbn [fst snd forget] in *; try exact H1.
    - pose proof (rq_pop s1) as H2.
      destruct (pop_function_call s1) as [[u|e l|p| |] s2]; cbn [fst snd forget] in *;
        eapply (oc_trans _ RQ_ocat); try exact H1; (eapply RQ_any; exact H2).
    - pose proof (rq_pop s1) as H2.
      destruct (pop_function_call s1) as [[u|e2 l2|p| |] s2]; cbn [fst snd forget] in *;
        eapply (oc_trans _ RQ_ocat); try (eapply RQ_any; exact H1); (eapply RQ_any; exact H2).
  Qed.

  Lemma rq_user_function_call name : orel RQ (user_function_call rec name).
  Proof.
    unfold user_function_call.
    orel_walk RQ_ocat ltac:(first [ apply rq_bind_arguments | apply rq_call_body | rq_leaf ]).
  Qed.

  Lemma rq_array_index : orel RQ (evaluate_array_index fuel rec).
  Proof. unfold evaluate_array_index; orel_walk RQ_ocat ltac:(first [ apply Hrec | rq_leaf ]). Qed.

  Lemma rq_unary_arg : orel RQ (unary_number_function_arg rec).
  Proof. unfold unary_number_function_arg; orel_walk RQ_ocat ltac:(first [ apply Hrec | rq_leaf ]). Qed.

  Lemma rq_function_call name : orel RQ (function_call rec name).
  Proof.
    unfold function_call.
    orel_walk RQ_ocat ltac:(first [ apply rq_unary_arg | apply rq_user_function_call | rq_leaf ]).
  Qed.

  Lemma rq_unary : orel RQ (unary_operator fuel rec).
  Proof.
    unfold unary_operator, parenthesized_expression, expression_term.
    orel_walk RQ_ocat ltac:(first [ apply Hrec | apply rq_function_call | apply rq_array_index | rq_leaf ]).
  Qed.

  Lemma rq_accept_as {O} t (o : O) : orel RQ (accept_as t o).
  Proof. unfold accept_as; rq_walk. Qed.

  Lemma rq_tier {O} (get_op : M (option O)) operand apply :
    orel RQ get_op -> orel RQ operand -> (forall o a b, orel RQ (apply o a b)) ->
    orel RQ (tier fuel get_op operand apply).
  Proof.
    intros H1 H2 H3. unfold tier.
    orel_walk RQ_ocat ltac:(first [ apply H1 | apply H2 | apply H3 | rq_leaf ]).
  Qed.

  Lemma rq_logical_or : orel RQ (logical_or_expression fuel rec).
  Proof.
    unfold logical_or_expression, logical_and_expression, equality_expression,
      plus_or_minus_expression, multiply_or_divide_expression, exponent_expression.
    repeat (apply rq_tier; [ first [apply rq_accept_as | apply rq_try] | | intros; rq_leaf ]).
    apply rq_unary.
  Qed.
End ExprQ.

Lemma rq_evaluate_expression fuel : forall n, orel RQ (evaluate_expression fuel n).
Proof.
  induction fuel as [|k IH]; intros n; cbn [evaluate_expression].
  - apply (orel_out_of_fuel _ RQ_ocat).
  - destruct (Nat.eqb n max_nesting); [apply (orel_fail _ RQ_ocat)|].
    apply rq_logical_or; apply IH.
Qed.
#[local] Hint Resolve rq_evaluate_expression : rqdb.
(* ------------------------------------------------------------------ *)
(* one simple statement *)

Definition R1 (s : interp) (r : res unit) (s' : interp) : Prop :=
  exists new, outputs s' = outputs s ++ new /\ length (filter shows new) <= 1
              /\ Forall (fun o => match o with OTrace _ => False | _ => True end) new.

Lemma filter_shows_warnings w : Forall is_warning w -> filter shows w = [].
Proof. induction 1 as [|o w Ho _ IH]; [reflexivity|]. destruct o; try contradiction. exact IH. Qed.

Lemma warnings_not_trace w : Forall is_warning w ->
  Forall (fun o => match o with OTrace _ => False | _ => True end) w.
Proof. apply Forall_impl. intros o; destruct o; auto. Qed.

Lemma warnings_trace_ok L w : Forall is_warning w -> Forall (trace_ok L) w.
Proof. apply Forall_impl. intros o; destruct o; cbn; auto; contradiction. Qed.

Lemma R1_of_RQ s r r' s' : RQ s r s' -> R1 s r' s'.
Proof.
  intros (w & Hw & Fw). exists w.
  rewrite (filter_shows_warnings w Fw). split; [exact Hw|]. split; [cbn; lia|apply warnings_not_trace, Fw].
Qed.

Lemma r1_of_rq {A} (m : M A) : orel RQ m -> orel R1 m.
Proof. intros H s. eapply R1_of_RQ, H. Qed.

Lemma r1_bind_l {A B} (m : M A) (f : A -> M B) :
  orel RQ m -> (forall a, orel R1 (f a)) -> orel R1 (bind m f).
Proof.
  intros Hm Hf s. rewrite Safety.bind_run. pose proof (Hm s) as H1.
  destruct (m s) as [[a|e l|p| |] s1]; cbn [fst snd forget] in *;
    try (eapply R1_of_RQ; exact H1).
  destruct H1 as (w & Hw & Fw). destruct (Hf a s1) as (n & Hn & Cn & Tn).
  exists (w ++ n). rewrite Hn, Hw, app_assoc. split; [reflexivity|].
  rewrite filter_app, (filter_shows_warnings w Fw). split; [exact Cn|].
  apply Forall_app; split; [apply warnings_not_trace, Fw|exact Tn].
Qed.

Lemma r1_bind_r {A B} (m : M A) (f : A -> M B) :
  orel R1 m -> (forall a, orel RQ (f a)) -> orel R1 (bind m f).
Proof.
  intros Hm Hf s. rewrite Safety.bind_run. pose proof (Hm s) as H1.
  destruct (m s) as [[a|e l|p| |] s1]; cbn [fst snd forget] in *; try exact H1.
  destruct H1 as (n & Hn & Cn & Tn). destruct (Hf a s1) as (w & Hw & Fw).
  exists (n ++ w). rewrite Hw, Hn, app_assoc. split; [reflexivity|].
  rewrite filter_app, (filter_shows_warnings w Fw), app_nil_r. split; [exact Cn|].
  apply Forall_app; split; [exact Tn|apply warnings_not_trace, Fw].
Qed.

Lemma r1_push o : (match o with OTrace _ => False | _ => True end) -> orel R1 (push_output o).
Proof.
  intros Ho. unfold push_output. apply orel_modify. intros s. exists [o]. split; [reflexivity|].
  split; [cbn; destruct (shows o); cbn; lia|constructor; [exact Ho|constructor]].
Qed.

Lemma r1_ret {A} (a : A) : orel R1 (ret a).
Proof. apply r1_of_rq, (orel_ret _ RQ_ocat). Qed.

Section StmtQ.
  Variable fuel nest : nat.

  Ltac st_leaf := first [ apply rq_evaluate_expression | rq_leaf ].
  Ltac st_walk := orel_walk RQ_ocat st_leaf.

  Lemma rq_optional_index : orel RQ (parse_optional_array_index fuel nest).
  Proof. unfold parse_optional_array_index; orel_walk RQ_ocat ltac:(first [ apply rq_array_index; apply rq_evaluate_expression | st_leaf ]). Qed.
  Lemma rq_assign_value lv v : orel RQ (assign_value lv v).
  Proof. unfold assign_value; st_walk. Qed.
  Lemma rq_assignment sym : orel RQ (evaluate_assignment_statement fuel nest sym).
  Proof.
    unfold evaluate_assignment_statement.
    orel_walk RQ_ocat ltac:(first [ apply rq_optional_index | apply rq_assign_value | st_leaf ]).
  Qed.
  Lemma rq_let : orel RQ (evaluate_let_statement fuel nest).
  Proof. unfold evaluate_let_statement; orel_walk RQ_ocat ltac:(first [ apply rq_assignment | st_leaf ]). Qed.
  Lemma rq_parse_lvalue : orel RQ (parse_lvalue fuel nest).
  Proof. unfold parse_lvalue; orel_walk RQ_ocat ltac:(first [ apply rq_optional_index | st_leaf ]). Qed.
  Lemma rq_read : orel RQ (evaluate_read_statement fuel nest).
  Proof.
    unfold evaluate_read_statement.
    orel_walk RQ_ocat ltac:(first [ apply rq_parse_lvalue | apply rq_assign_value | st_leaf ]).
  Qed.
  Lemma rq_take_input : orel RQ take_input.
  Proof. unfold take_input; st_walk. Qed.
  Lemma rq_rewind_await : orel RQ rewind_program_and_await_input.
  Proof. unfold rewind_program_and_await_input; st_walk. Qed.
  Lemma rq_dim : orel RQ (evaluate_dim_statement fuel nest).
  Proof. unfold evaluate_dim_statement; orel_walk RQ_ocat ltac:(first [ apply rq_parse_lvalue | st_leaf ]). Qed.
  Lemma rq_for : orel RQ (evaluate_for_statement fuel nest).
  Proof. unfold evaluate_for_statement; st_walk. Qed.
  Lemma rq_next_stmt : orel RQ evaluate_next_statement.
  Proof. unfold evaluate_next_statement; st_walk. Qed.
  Lemma rq_def : orel RQ (evaluate_def_statement fuel).
  Proof. unfold evaluate_def_statement; st_walk. Qed.
  Lemma rq_goto_stmt : orel RQ evaluate_goto_statement.
  Proof. unfold evaluate_goto_statement; st_walk. Qed.
  Lemma rq_gosub_stmt : orel RQ evaluate_gosub_statement.
  Proof. unfold evaluate_gosub_statement; st_walk. Qed.

  (* PRINT: the item loop pushes nothing; then exactly one Print record *)
  Lemma r1_print : orel R1 (evaluate_print_statement fuel nest).
  Proof.
    unfold evaluate_print_statement. apply r1_bind_l; [st_walk|intros [semi text]].
    apply r1_push. exact I.
  Qed.

  (* INPUT: at most one of ExtraIgnored / Reenter *)
  Lemma r1_input : orel R1 (evaluate_input_statement fuel nest).
  Proof.
    unfold evaluate_input_statement. apply r1_bind_l; [apply rq_take_input|intros ti].
    destruct ti as [[data leftover]|]; [|apply r1_of_rq, rq_rewind_await].
    apply r1_bind_l; [apply rq_parse_lvalue|intros lv].
    destruct data as [|first rest]; [apply r1_of_rq; rq_leaf|].
    destruct (coerce_data (lv_sym lv) first) as [v|e l|p| |]; try (apply r1_of_rq; rq_leaf).
    - apply r1_bind_l; [apply rq_assign_value|intros _].
      match goal with |- context [if ?c then _ else _] => destruct c end;
        [apply r1_push; exact I|apply r1_ret].
    - destruct e; try (apply r1_of_rq, rq_same; reflexivity).
      apply r1_bind_r; [apply r1_push; exact I|intros _; apply rq_rewind_await].
  Qed.

  (* STOP: one Break record *)
  Lemma r1_break : orel R1 break_at_current_location.
  Proof.
    unfold break_at_current_location. apply r1_bind_l; [rq_leaf|intros _].
    apply r1_bind_l; [rq_leaf|intros l].
    apply r1_bind_r; [apply r1_push; exact I|intros _; rq_leaf].
  Qed.
End StmtQ.

(* ------------------------------------------------------------------ *)
(* one statement entered on line L *)

Definition SQ (L : option N) (s : interp) (r : res unit) (s' : interp) : Prop :=
  loc_line (loc s) = L -> wf s ->
  exists new, outputs s' = outputs s ++ new /\ length (filter shows new) <= 1 /\ Forall (trace_ok L) new.

Lemma sq_of_r1 {A} L (m : M A) : orel R1 m -> orel (SQ L) m.
Proof.
  intros H s _ _. destruct (H s) as (n & Hn & Cn & Tn). exists n. split; [exact Hn|]. split; [exact Cn|].
  revert Tn. apply Forall_impl. intros o; destruct o; cbn; auto; contradiction.
Qed.

(* a prefix that keeps wf and (on success) the line, and pushes only warnings *)
Definition keeps {A} (m : M A) : Prop :=
  forall s, wf s -> match m s with
                    | (Ok _, s1) => wf s1 /\ loc_line (loc s1) = loc_line (loc s)
                    | _ => True
                    end.

Lemma keeps_of_er {A} (m : M A) : orel ERw m -> keeps m.
Proof.
  intros He s Hwf. pose proof (He s Hwf) as E1.
  destruct (m s) as [[a|e l|p| |] s1]; cbn [fst snd forget] in *; try exact I.
  destruct E1 as [A1 A2 A3 A4 A5 A6 A7 A8 A9]. destruct (A9 eq_refl) as [B1 B2]. split; assumption.
Qed.

Lemma keeps_discard : keeps discard_remaining_tokens.
Proof.
  intros s Hwf. pose proof (sr_discard s Hwf) as S1.
  unfold discard_remaining_tokens in *. rewrite Safety.bind_run in *.
  rewrite (cur_tokens_eq s (wf_loc _ Hwf)) in *. cbn [modify fst snd forget] in *.
  destruct S1 as [A1 A2 A3 A4 A5]. split; [exact A1|reflexivity].
Qed.

Lemma sq_bind_l {A B} L (m : M A) (f : A -> M B) :
  keeps m -> orel RQ m -> (forall a, orel (SQ L) (f a)) -> orel (SQ L) (bind m f).
Proof.
  intros He Hq Hf s HL Hwf. rewrite Safety.bind_run.
  pose proof (He s Hwf) as E1. pose proof (Hq s) as (w & Hw & Fw).
  destruct (m s) as [[a|e l|p| |] s1]; cbn [fst snd forget] in *;
    try (exists w; rewrite (filter_shows_warnings w Fw); split; [exact Hw|]; split;
         [cbn; lia|apply warnings_trace_ok, Fw]).
  destruct E1 as [A1 B1].
  destruct (Hf a s1 (eq_trans B1 HL) A1) as (n & Hn & Cn & Tn).
  exists (w ++ n). rewrite Hn, Hw, app_assoc. split; [reflexivity|].
  rewrite filter_app, (filter_shows_warnings w Fw). split; [exact Cn|].
  apply Forall_app; split; [apply warnings_trace_ok, Fw|exact Tn].
Qed.

Lemma sq_bind_r {A B} L (m : M A) (f : A -> M B) :
  orel (SQ L) m -> (forall a, orel RQ (f a)) -> orel (SQ L) (bind m f).
Proof.
  intros Hm Hf s HL Hwf. rewrite Safety.bind_run. pose proof (Hm s HL Hwf) as H1.
  destruct (m s) as [[a|e l|p| |] s1]; cbn [fst snd forget] in *; try exact H1.
  destruct H1 as (n & Hn & Cn & Tn). destruct (Hf a s1) as (w & Hw & Fw).
  exists (n ++ w). rewrite Hw, Hn, app_assoc. split; [reflexivity|].
  rewrite filter_app, (filter_shows_warnings w Fw), app_nil_r. split; [exact Cn|].
  apply Forall_app; split; [exact Tn|apply warnings_trace_ok, Fw].
Qed.

Lemma sq_ext {A} L (m m' : M A) : (forall s, m s = m' s) -> orel (SQ L) m -> orel (SQ L) m'.
Proof. intros H Hm s. rewrite <- H. apply Hm. Qed.

Lemma orel_ext {A} R (m m' : M A) : (forall s, m s = m' s) -> orel R m -> orel R m'.
Proof. intros H Hm s. rewrite <- H. apply Hm. Qed.

Lemma bind_assoc' {A B C} (m : M A) (f : A -> M B) (g : B -> M C) s :
  bind (bind m f) g s = bind m (fun a => bind (f a) g) s.
Proof. unfold bind. destruct (m s) as [[a|e l|p| |] s1]; reflexivity. Qed.

Section StmtSQ.
  Variable fuel nest : nat.
  Variable L : option N.
  Variable rec : M unit.
  Hypothesis Hrec : orel (SQ L) rec.

  Lemma sq_stmt_or_goto : orel (SQ L) (statement_or_goto_line_number rec).
  Proof.
    unfold statement_or_goto_line_number.
    apply sq_bind_l; [apply keeps_of_er, er_peek|rq_leaf|intros t].
    destruct t as [t|]; [destruct t|]; try exact Hrec. apply sq_of_r1, r1_of_rq, rq_goto_stmt.
  Qed.

  Lemma sq_if : orel (SQ L) (evaluate_if_statement fuel nest rec).
  Proof.
    unfold evaluate_if_statement.
    apply sq_bind_l; [apply keeps_of_er, er_evaluate_expression|apply rq_evaluate_expression|intros c].
    apply sq_bind_l; [apply keeps_of_er, er_expect|rq_leaf|intros _].
    destruct (to_bool c).
    - apply sq_bind_r; [apply sq_stmt_or_goto|intros _]. rq_walk.
    - generalize tt. induction fuel as [|k IH]; intros u; cbn [repeat_m].
      + apply sq_of_r1, r1_of_rq, (orel_out_of_fuel _ RQ_ocat).
      + eapply sq_ext; [intro; symmetry; apply bind_assoc'|].
        apply sq_bind_l; [apply keeps_of_er, er_next_token|rq_leaf|intros t].
        destruct t as [t|]; [|apply sq_of_r1, r1_ret].
        destruct t; try (eapply sq_ext; [intro; symmetry; apply Safety.bind_ret|]; apply IH).
        * eapply sq_ext; [intro; symmetry; apply bind_assoc'|].
          apply sq_bind_l; [apply keeps_discard|rq_leaf|intros _].
          eapply sq_ext; [intro; symmetry; apply Safety.bind_ret|]. apply IH.
        * eapply sq_ext; [intro; symmetry; apply bind_assoc'|].
          apply sq_bind_r; [apply sq_stmt_or_goto|intros _].
          eapply orel_ext; [intro; symmetry; apply bind_assoc'|].
          apply (orel_bind _ RQ_ocat); [rq_walk|intros e].
          eapply orel_ext; [intro; symmetry; apply bind_assoc'|].
          apply (orel_bind _ RQ_ocat); [destruct e; rq_walk|intros ?].
          eapply orel_ext; [intro; symmetry; apply Safety.bind_ret|]. apply (orel_ret _ RQ_ocat).
  Qed.
End StmtSQ.

(* the trace prefix of evaluate_statement: one Trace record naming the line *)
Lemma trace_prefix L s :
  loc_line (loc s) = L ->
  exists t, (tr <- get enable_tracing ;;
             if tr then (l <- get_line_number ;;
                         match l with Some n => push_output (OTrace n) | None => ret tt end)
             else ret tt) s = (Ok tt, set_outputs (outputs s ++ t) s)
            /\ Forall (trace_ok L) t /\ filter shows t = [].
Proof.
  intros HL. rewrite bind_get. destruct (enable_tracing s).
  - unfold get_line_number. rewrite bind_assoc', bind_get, Safety.bind_ret. rewrite HL.
    destruct L as [n|].
    + exists [OTrace n]. split; [reflexivity|]. split; [repeat constructor|reflexivity].
    + exists []. rewrite app_nil_r. split; [destruct s; reflexivity|]. split; [constructor|reflexivity].
  - exists []. rewrite app_nil_r. split; [destruct s; reflexivity|]. split; [constructor|reflexivity].
Qed.

Section Body.
  Variable fuel nest : nat.
  Variable L : option N.
  Variable rec : M unit.
  Hypothesis Hrec : orel (SQ L) rec.

  Ltac arm :=
    first [ apply sq_of_r1, r1_break | apply sq_of_r1, r1_print | apply sq_of_r1, r1_input
          | apply (sq_if fuel nest L rec Hrec)
          | apply sq_of_r1, r1_of_rq;
            first [ apply rq_dim | apply rq_goto_stmt | apply rq_gosub_stmt
                  | apply rq_for | apply rq_next_stmt | apply rq_def | apply rq_read | apply rq_let
                  | apply rq_assignment
                  | orel_walk RQ_ocat ltac:(first [ apply rq_evaluate_expression | rq_leaf ]) ] ].

  Lemma sq_dispatch : orel (SQ L)
    (t <- next_token ;;
     match t with
     | Some TStop => break_at_current_location
     | Some TDim => evaluate_dim_statement fuel nest
     | Some TPrint | Some TQuestionMark => evaluate_print_statement fuel nest
     | Some TInput => evaluate_input_statement fuel nest
     | Some TIf => evaluate_if_statement fuel nest rec
     | Some TGoto => evaluate_goto_statement
     | Some TGosub => evaluate_gosub_statement
     | Some TReturn => return_to_last_gosub
     | Some TEnd => program_end
     | Some TFor => evaluate_for_statement fuel nest
     | Some TNext => evaluate_next_statement
     | Some TRestore => reset_data_cursor
     | Some TDef => evaluate_def_statement fuel
     | Some TRead => evaluate_read_statement fuel nest
     | Some (TRemark _) => ret tt
     | Some TColon => ret tt
     | Some (TData _) => ret tt
     | Some TLet => evaluate_let_statement fuel nest
     | Some (TSymbol sym) => evaluate_assignment_statement fuel nest sym
     | Some TElse =>
         b <- is_else_of_then_clause ;;
         if b then discard_remaining_tokens else fail EUnexpectedToken
     | Some _ => fail EUnexpectedToken
     | None => ret tt
     end).
  Proof.
    apply sq_bind_l; [apply keeps_of_er, er_next_token|rq_leaf|intros t].
    destruct t as [t|]; [destruct t|]; arm.
  Qed.

  Lemma sq_statement_body : orel (SQ L) (evaluate_statement_body fuel nest rec).
  Proof.
    intros s HL Hwf. unfold evaluate_statement_body.
    destruct (trace_prefix L s HL) as (t & Ht & Tt & St).
    rewrite <- bind_assoc'. rewrite Safety.bind_run, Ht.
    set (s1 := set_outputs (outputs s ++ t) s).
    assert (Hwf1 : wf s1) by (revert Hwf; apply wf_ext; reflexivity).
    destruct (sq_dispatch s1 HL Hwf1) as (n & Hn & Cn & Tn).
    exists (t ++ n). rewrite Hn. subst s1. cbn [outputs set_outputs]. rewrite app_assoc.
    split; [reflexivity|]. rewrite filter_app, St. split; [exact Cn|].
    apply Forall_app; split; assumption.
  Qed.
End Body.

Lemma sq_evaluate_statement fuel L : forall n, orel (SQ L) (evaluate_statement fuel n).
Proof.
  induction fuel as [|k IH]; intros n; cbn [evaluate_statement].
  - apply sq_of_r1, r1_of_rq, (orel_out_of_fuel _ RQ_ocat).
  - destruct (Nat.eqb n max_nesting); [apply sq_of_r1, r1_of_rq, (orel_fail _ RQ_ocat)|].
    apply sq_statement_body; apply IH.
Qed.

(* ------------------------------------------------------------------ *)
(* one turn *)

Theorem one_statement_per_turn fuel s :
  wf s ->
  exists new, outputs (snd (run_next_statement fuel s)) = outputs s ++ new
              /\ length (filter shows new) <= 1
              /\ Forall (trace_ok (loc_line (loc s))) new.
Proof.
  intros Hwf. set (L := loc_line (loc s)).
  assert (H : orel (SQ L) (run_next_statement fuel)).
  { unfold run_next_statement, return_to_idle_state.
    apply sq_bind_l; [apply keeps_of_er; frame_tac|rq_leaf|intros _].
    apply sq_bind_l; [apply keeps_of_er, er_has_next|rq_leaf|intros h].
    apply sq_bind_r; [destruct h; [apply sq_evaluate_statement|apply sq_of_r1, r1_ret]|intros _].
    rq_walk. }
  exact (H s eq_refl Hwf).
Qed.

(* the host call that continues a running program *)
Corollary continue_one_statement fuel s :
  wf s -> state s = Running ->
  exists new, outputs (snd (continue_evaluating fuel s)) = outputs s ++ new
              /\ length (filter shows new) <= 1
              /\ Forall (trace_ok (loc_line (loc s))) new.
Proof.
  intros Hwf Hst. unfold continue_evaluating. rewrite Hst.
  destruct (one_statement_per_turn fuel s Hwf) as (n & Hn & Cn & Tn).
  exists n. split; [|split; assumption].
  destruct (run_next_statement fuel s) as [[u|e l|p| |] s1]; cbn [postprocess snd] in *; exact Hn.
Qed.

(* the calls that START evaluation: an immediate statement line, RUN, CONT *)
Lemma outputs_imm_reset ts s : outputs (imm_reset ts s) = outputs s.
Proof. unfold imm_reset. destruct (breakpoint s); reflexivity. Qed.

Definition starts_statement (line : bytes) : Prop :=
  command_of line = None \/ command_of line = Some CRun \/ command_of line = Some CCont.

Theorem start_one_statement fuel line s :
  wf s -> starts_statement line ->
  exists new, outputs (snd (start_evaluating fuel line s)) = outputs s ++ new
              /\ length (filter shows new) <= 1.
Proof.
  intros Hwf Hc.
  assert (K0 : forall s', outputs s' = outputs s ->
             exists new, outputs s' = outputs s ++ new /\ length (filter shows new) <= 1).
  { intros s' H. exists []. rewrite app_nil_r. split; [exact H|cbn; lia]. }
  assert (KP : forall (x : res unit * interp), outputs (snd (postprocess x)) = outputs (snd x)).
  { intros [[u|e l|p| |] s1]; reflexivity. }
  unfold start_evaluating. rewrite KP. unfold evaluate_impl. rewrite bind_get.
  destruct (state s); try (apply K0; reflexivity).
  rewrite set_imm_is_modify, bind_modify.
  pose proof (wf_imm_reset [] s Hwf) as Hwf1. pose proof (outputs_imm_reset [] s) as Ho1.
  set (s1 := imm_reset [] s) in *.
  assert (KR : forall s2, wf s2 -> outputs s2 = outputs s ->
             exists new, outputs (snd (run_next_statement fuel s2)) = outputs s ++ new
                         /\ length (filter shows new) <= 1).
  { intros s2 Hwf2 Ho2. destruct (one_statement_per_turn fuel s2 Hwf2) as (n & Hn & Cn & _).
    exists n. rewrite Hn, Ho2. split; [reflexivity|exact Cn]. }
  destruct Hc as [Hc|[Hc|Hc]]; rewrite Hc.
  - destruct (match parse_line_number line with Some (n, e) => (Some n, e) | None => (None, 0) end) as [num skip].
    destruct (tokenize line skip) as [ts|ts e]; [|apply K0; exact Ho1].
    destruct num as [n|].
    + apply K0. rewrite <- Ho1.
      unfold set_numbered_line, reset_data_cursor, program_end. rewrite set_imm_is_modify.
      unfold modify, bind. cbn [snd]. rewrite outputs_imm_reset. cbn. unfold store_set.
      destruct (map fst ts); reflexivity.
    + rewrite set_imm_is_modify, bind_modify. apply KR.
      * apply wf_imm_reset, Hwf1.
      * rewrite outputs_imm_reset. exact Ho1.
  - cbn [process_command]. rewrite !bind_modify. rewrite Safety.bind_run.
    set (s2 := set_arrays [] _).
    assert (Hwf2 : wf s2).
    { subst s2. apply wf_set_arrays; [|constructor]. revert Hwf1. apply wf_ext; reflexivity. }
    pose proof (sr_run_from_first s2 Hwf2) as S3.
    assert (Ho3 : outputs (snd (run_from_first_numbered_line s2)) = outputs s).
    { unfold run_from_first_numbered_line, reset_runtime_state, reset_data_cursor, program_end.
      rewrite set_imm_is_modify. unfold modify, bind. cbn [snd fst].
      match goal with |- context [store_first ?x] => destruct (store_first x) end;
        cbn [outputs set_loc]; rewrite outputs_imm_reset; exact Ho1. }
    destruct (run_from_first_numbered_line s2) as [[u|e l|p| |] s3]; cbn [fst snd forget] in *;
      try (apply K0; exact Ho3).
    apply KR; [exact (sr_wf _ _ _ S3)|exact Ho3].
  - cbn [process_command]. rewrite Safety.bind_run.
    pose proof (sr_continue_bp s1 Hwf1) as S3.
    assert (Ho3 : outputs (snd (continue_from_breakpoint s1)) = outputs s).
    { unfold continue_from_breakpoint. rewrite set_imm_is_modify, bind_modify, bind_get.
      destruct (breakpoint (imm_reset [] s1)); cbn [modify fail snd outputs set_breakpoint set_loc];
        rewrite outputs_imm_reset; exact Ho1. }
    destruct (continue_from_breakpoint s1) as [[u|e l|p| |] s3]; cbn [fst snd forget] in *;
      try (apply K0; exact Ho3).
    apply KR; [exact (sr_wf _ _ _ S3)|exact Ho3].
Qed.
