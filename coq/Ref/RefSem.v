(* Ref/RefSem.v — a reference interpreter for BASIC programs, on SYNTAX TREES.

   Written from the language's documented semantics (README, the manual's
   wording quoted in property C03), not from the token walker: there is no
   token stream, no cursor and no host turn here.  A program is a finite list
   of numbered lines, each a list of statements; a configuration is a program
   counter (line index, statement index) plus variables, arrays, the FOR stack,
   the GOSUB stack, function-call bindings (dynamic scoping), the DATA position,
   the function table, the random generator and the printed text.

   Shared with the model: only the IEEE-754 arithmetic and the number printer
   of Model/Num.v and the datatypes [value] and [data_elem]. *)
From Coq Require Import List NArith ZArith Bool.
From Abasic Require Import Model.Bytes Model.Num Model.Token Gen.Tables Model.State.
Import ListNotations.
Local Open Scope nat_scope.

Inductive cmp := CEq | CLt | CLe | CGt | CGe | CNe.
Inductive rbin := ROr | RAnd | RCmp (c : cmp) | RAdd | RSub | RMul | RDiv.

Inductive rexpr :=
| XNum (x : f64) | XStr (s : bytes) | XVar (v : bytes)
| XCell (a : bytes) (idx : list rexpr)
| XNeg (e : rexpr) | XPos (e : rexpr) | XNot (e : rexpr)
| XBin (op : rbin) (a b : rexpr)
| XAbs (e : rexpr) | XInt (e : rexpr) | XRnd (e : rexpr)
| XFn (f : bytes) (args : list rexpr).

Inductive pitem := PExpr (e : rexpr) | PSemi | PComma.

Inductive rstmt :=
| SLet (v : bytes) (idx : list rexpr) (e : rexpr)        (* idx = [] : a scalar *)
| SPrint (items : list pitem)
| SIf (c : rexpr) (t : arm) (e : option arm)
| SGoto (n : N) | SGosub (n : N) | SReturn
| SFor (v : bytes) (a b : rexpr) (st : option rexpr) | SNext (v : bytes)
| SRead (targets : list (bytes * list rexpr)) | SData (items : list data_elem) | SRestore
| SDim (a : bytes) (idx : list rexpr)
| SDef (f : bytes) (params : list bytes) (body : rexpr)
| SEnd | SRem
with arm := AStmt (s : rstmt) | ALine (n : N).

Definition rprogram := list (N * list rstmt).

Inductive rerr :=
| RTypeMismatch | RDivisionByZero | ROutOfData | RDataTypeMismatch | RBadSubscript | RIllegalQuantity
| RStackOverflow | RArrayTooLarge | RRedim | RUndefinedLine | RReturnWithoutGosub | RNextWithoutFor
| RUnimplemented | RSyntax.

Definition rpc := (nat * nat)%type.          (* line index, statement index (= length: next line) *)

Record rarray := mkra { ra_dims : list N; ra_cells : list value }.
Record rloop := mkrl { rl_var : bytes; rl_to : f64; rl_step : f64; rl_body : rpc }.
Record rfn := mkrf { rf_params : list bytes; rf_body : rexpr; rf_line : N }.

Record rstate := mkr {
  r_vars : list (bytes * value);
  r_arrays : list (bytes * rarray);
  r_loops : list rloop;                       (* innermost last *)
  r_calls : list rpc;                         (* GOSUB return points, innermost first *)
  r_frames : list (list (bytes * value));     (* function-call bindings, innermost first *)
  r_dpos : nat;                               (* items of the DATA list already read *)
  r_fns : list (bytes * rfn);
  r_rng : N;
  r_out : list bytes }.                       (* one entry per PRINT statement *)

Definition r_init (seed : N) : rstate := mkr [] [] [] [] [] 0 [] (seed mod MODULUS) [].

(* ------------------------------------------------------------------ *)
(* values *)

Definition str_name (name : bytes) : bool := match rev name with 36%N :: _ => true | _ => false end.
Definition default_of (name : bytes) : value := if str_name name then VStr [] else VNum f64_zero.
Definition kind_ok (name : bytes) (v : value) : bool :=
  match v with VStr _ => str_name name | VNum _ => negb (str_name name) end.
Definition truth (v : value) : bool :=
  match v with VStr [] => false | VStr _ => true | VNum x => negb (f64_eqb x f64_zero) end.
Definition of_bool (b : bool) : value := VNum (if b then f64_one else f64_zero).

Fixpoint lookup {V} (k : bytes) (l : list (bytes * V)) : option V :=
  match l with [] => None | (k', v) :: r => if bytes_eqb k k' then Some v else lookup k r end.
Fixpoint update {V} (k : bytes) (v : V) (l : list (bytes * V)) : list (bytes * V) :=
  match l with
  | [] => [(k, v)]
  | (k', v') :: r => if bytes_eqb k k' then (k, v) :: r else (k', v') :: update k v r
  end.

(* a variable read: parameter bindings of the active function calls first
   (innermost first: dynamic scoping), then the program's variables, then the
   default *)
Fixpoint lookup_frames (k : bytes) (fs : list (list (bytes * value))) : option value :=
  match fs with
  | [] => None
  | f :: r => match lookup k f with Some v => Some v | None => lookup_frames k r end
  end.
Definition read_var (st : rstate) (name : bytes) : value :=
  match lookup_frames name (r_frames st) with
  | Some v => v
  | None => match lookup name (r_vars st) with Some v => v | None => default_of name end
  end.

Definition cmp_nums (c : cmp) (a b : f64) : bool :=
  match c with
  | CEq => f64_eqb a b | CLt => f64_ltb a b | CLe => f64_leb a b
  | CGt => f64_ltb b a | CGe => f64_leb b a | CNe => negb (f64_eqb a b)
  end.
Definition cmp_strs (c : cmp) (a b : bytes) : bool :=
  match c, bytes_compare a b with
  | CEq, Eq => true | CEq, _ => false
  | CLt, Lt => true | CLt, _ => false
  | CLe, Gt => false | CLe, _ => true
  | CGt, Gt => true | CGt, _ => false
  | CGe, Lt => false | CGe, _ => true
  | CNe, Eq => false | CNe, _ => true
  end.

Definition apply_bin (op : rbin) (a b : value) : value + rerr :=
  match op, a, b with
  | ROr, _, _ => inl (of_bool (truth a || truth b))
  | RAnd, _, _ => inl (of_bool (truth a && truth b))
  | RCmp c, VNum x, VNum y => inl (of_bool (cmp_nums c x y))
  | RCmp c, VStr x, VStr y => inl (of_bool (cmp_strs c x y))
  | RAdd, VNum x, VNum y => inl (VNum (f64_add x y))
  | RSub, VNum x, VNum y => inl (VNum (f64_sub x y))
  | RMul, VNum x, VNum y => inl (VNum (f64_mul x y))
  | RDiv, VNum x, VNum y => if f64_eqb y f64_zero then inr RDivisionByZero else inl (VNum (f64_div x y))
  | _, _, _ => inr RTypeMismatch
  end.

(* ------------------------------------------------------------------ *)
(* arrays: implicit arrays have indices 0..10 in every dimension *)

Fixpoint product (l : list N) : N := match l with [] => 1%N | d :: r => (d * product r)%N end.

Definition new_array (name : bytes) (max_indices : list N) : rarray + rerr :=
  match max_indices with
  | [] => inr RBadSubscript
  | _ =>
      let dims := map (fun m => (m + 1)%N) max_indices in
      if (MAX_DIM_TOTAL_ELEMENTS <? product dims)%N then inr RArrayTooLarge
      else inl (mkra dims (repeat (default_of name) (N.to_nat (product dims))))
  end.

(* first subscript varies fastest *)
Fixpoint offset (idx dims : list N) (stride : N) : option N :=
  match idx, dims with
  | [], [] => Some 0%N
  | i :: ir, d :: dr =>
      if (d <=? i)%N then None
      else match offset ir dr (stride * d)%N with Some o => Some (i * stride + o)%N | None => None end
  | _, _ => None
  end.

Definition ensure_array (name : bytes) (n : nat) (st : rstate) : rstate + rerr :=
  match lookup name (r_arrays st) with
  | Some _ => inl st
  | None =>
      match new_array name (repeat DEFAULT_ARRAY_SIZE n) with
      | inl a => inl (mkr (r_vars st) (update name a (r_arrays st)) (r_loops st) (r_calls st) (r_frames st)
                          (r_dpos st) (r_fns st) (r_rng st) (r_out st))
      | inr e => inr e
      end
  end.

Definition set_arrays' (a : list (bytes * rarray)) (st : rstate) : rstate :=
  mkr (r_vars st) a (r_loops st) (r_calls st) (r_frames st) (r_dpos st) (r_fns st) (r_rng st) (r_out st).
Definition set_vars' (v : list (bytes * value)) (st : rstate) : rstate :=
  mkr v (r_arrays st) (r_loops st) (r_calls st) (r_frames st) (r_dpos st) (r_fns st) (r_rng st) (r_out st).
Definition set_frames' (f : list (list (bytes * value))) (st : rstate) : rstate :=
  mkr (r_vars st) (r_arrays st) (r_loops st) (r_calls st) f (r_dpos st) (r_fns st) (r_rng st) (r_out st).
Definition set_rng' (g : N) (st : rstate) : rstate :=
  mkr (r_vars st) (r_arrays st) (r_loops st) (r_calls st) (r_frames st) (r_dpos st) (r_fns st) g (r_out st).
Definition set_loops' (l : list rloop) (st : rstate) : rstate :=
  mkr (r_vars st) (r_arrays st) l (r_calls st) (r_frames st) (r_dpos st) (r_fns st) (r_rng st) (r_out st).
Definition set_calls' (c : list rpc) (st : rstate) : rstate :=
  mkr (r_vars st) (r_arrays st) (r_loops st) c (r_frames st) (r_dpos st) (r_fns st) (r_rng st) (r_out st).
Definition set_dpos' (d : nat) (st : rstate) : rstate :=
  mkr (r_vars st) (r_arrays st) (r_loops st) (r_calls st) (r_frames st) d (r_fns st) (r_rng st) (r_out st).
Definition set_fns' (f : list (bytes * rfn)) (st : rstate) : rstate :=
  mkr (r_vars st) (r_arrays st) (r_loops st) (r_calls st) (r_frames st) (r_dpos st) f (r_rng st) (r_out st).
Definition add_out (t : bytes) (st : rstate) : rstate :=
  mkr (r_vars st) (r_arrays st) (r_loops st) (r_calls st) (r_frames st) (r_dpos st) (r_fns st) (r_rng st) (r_out st ++ [t]).

Fixpoint replace_nth {A} (l : list A) (i : nat) (v : A) : list A :=
  match l, i with
  | [], _ => []
  | _ :: r, O => v :: r
  | x :: r, S i' => x :: replace_nth r i' v
  end.

(* ------------------------------------------------------------------ *)
(* expressions: strict, left to right.  An error carries the line it is
   attributed to ([None]: the line of the statement being executed; an error
   inside a user function's body belongs to the DEF's line). *)

Inductive eres (A : Type) := EOk (a : A) (st : rstate) | EErr (e : rerr) (line : option N) | EFuel.
Arguments EOk {A}. Arguments EErr {A}. Arguments EFuel {A}.

Definition depth (st : rstate) : nat := length (r_calls st) + length (r_frames st).
Definition depth_cap : nat := N.to_nat STACK_LIMIT.

Definition subscript (v : value) : N + rerr :=
  match v with
  | VStr _ => inr RTypeMismatch
  | VNum x => let i := f64_to_i64_sat x in if (i <? 0)%Z then inr RIllegalQuantity else inl (Z.to_N i)
  end.

Definition rnd (x : f64) (st : rstate) : eres value :=
  let out g := VNum (f64_div (f64_of_Z (Z.of_N g)) (f64_of_Z (Z.of_N MODULUS))) in
  if f64_ltb x f64_zero then EErr RUnimplemented None
  else if f64_eqb x f64_zero then EOk (out (r_rng st)) st
  else let g := ((MULTIPLIER * r_rng st + INCREMENT) mod MODULUS)%N in EOk (out g) (set_rng' g st).

Section Eval.
  Variable eval : rstate -> rexpr -> eres value.      (* one level of fuel down *)

  Fixpoint eval_list (st : rstate) (es : list rexpr) : eres (list value) :=
    match es with
    | [] => EOk [] st
    | e :: r =>
        match eval st e with
        | EOk v st1 => match eval_list st1 r with
                       | EOk vs st2 => EOk (v :: vs) st2
                       | other => other
                       end
        | EErr er l => EErr er l
        | EFuel => EFuel
        end
    end.

  (* subscripts are evaluated and checked one by one, left to right *)
  Fixpoint eval_subscripts (st : rstate) (es : list rexpr) : eres (list N) :=
    match es with
    | [] => EOk [] st
    | e :: r =>
        match eval st e with
        | EOk v st1 =>
            match subscript v with
            | inr er => EErr er None
            | inl i => match eval_subscripts st1 r with
                       | EOk is st2 => EOk (i :: is) st2
                       | other => other
                       end
            end
        | EErr er l => EErr er l
        | EFuel => EFuel
        end
    end.

  Definition read_cell (name : bytes) (idx : list N) (st : rstate) : eres value :=
    match ensure_array name (length idx) st with
    | inr er => EErr er None
    | inl st1 =>
        match lookup name (r_arrays st1) with
        | None => EErr RBadSubscript None
        | Some a =>
            if negb (Nat.eqb (length idx) (length (ra_dims a))) then EErr RBadSubscript None
            else match offset idx (ra_dims a) 1%N with
                 | None => EErr RBadSubscript None
                 | Some o => match nth_error (ra_cells a) (N.to_nat o) with
                             | Some v => EOk v st1
                             | None => EErr RBadSubscript None
                             end
                 end
        end
    end.

  (* arguments: evaluated in the caller's scope, left to right, each checked
     against its parameter's kind before the next is evaluated *)
  Fixpoint bind_params (st : rstate) (ps : list bytes) (args : list rexpr) (acc : list (bytes * value))
    : eres (list (bytes * value)) :=
    match ps, args with
    | [], [] => EOk acc st
    | p :: pr, a :: ar =>
        match eval st a with
        | EOk v st1 => if kind_ok p v then bind_params st1 pr ar (update p v acc) else EErr RTypeMismatch None
        | EErr er l => EErr er l
        | EFuel => EFuel
        end
    | _, _ => EErr RSyntax None
    end.

  Definition eval_step (st : rstate) (e : rexpr) : eres value :=
    match e with
    | XNum x => EOk (VNum x) st
    | XStr s => EOk (VStr s) st
    | XVar v => EOk (read_var st v) st
    | XCell a idx =>
        match eval_subscripts st idx with
        | EOk is st1 => read_cell a is st1
        | EErr er l => EErr er l
        | EFuel => EFuel
        end
    | XPos a => eval st a
    | XNeg a => match eval st a with
                | EOk (VNum x) st1 => EOk (VNum (f64_neg x)) st1
                | EOk (VStr _) _ => EErr RTypeMismatch None
                | other => other
                end
    | XNot a => match eval st a with
                | EOk v st1 => EOk (of_bool (negb (truth v))) st1
                | other => other
                end
    | XBin op a b =>
        match eval st a with
        | EOk v st1 =>
            match eval st1 b with
            | EOk w st2 => match apply_bin op v w with inl r => EOk r st2 | inr er => EErr er None end
            | other => other
            end
        | other => other
        end
    | XAbs a => match eval st a with
                | EOk (VNum x) st1 => EOk (VNum (f64_abs x)) st1
                | EOk (VStr _) _ => EErr RTypeMismatch None
                | other => other
                end
    | XInt a => match eval st a with
                | EOk (VNum x) st1 => EOk (VNum (f64_floor x)) st1
                | EOk (VStr _) _ => EErr RTypeMismatch None
                | other => other
                end
    | XRnd a => match eval st a with
                | EOk (VNum x) st1 => rnd x st1
                | EOk (VStr _) _ => EErr RTypeMismatch None
                | other => other
                end
    | XFn f args =>
        match lookup f (r_fns st) with
        | None =>                                  (* not (yet) defined: an array cell *)
            match eval_subscripts st args with
            | EOk is st1 => read_cell f is st1
            | EErr er l => EErr er l
            | EFuel => EFuel
            end
        | Some d =>
            match bind_params st (rf_params d) args [] with
            | EOk binds st1 =>
                if Nat.eqb (depth st1) depth_cap then EErr RStackOverflow None
                else
                  match eval (set_frames' (binds :: r_frames st1) st1) (rf_body d) with
                  | EOk v st2 => EOk v (set_frames' (r_frames st1) st2)
                  | EErr er None => EErr er (Some (rf_line d))     (* the failure is in the body: the DEF's line *)
                  | other => other
                  end
            | EErr er l => EErr er l
            | EFuel => EFuel
            end
        end
    end.
End Eval.

Fixpoint eval (fuel : nat) (st : rstate) (e : rexpr) : eres value :=
  match fuel with
  | O => EFuel
  | S f => eval_step (eval f) st e
  end.

(* ------------------------------------------------------------------ *)
(* programs *)

Fixpoint find_line (p : rprogram) (n : N) (i : nat) : option nat :=
  match p with
  | [] => None
  | (k, _) :: r => if (k =? n)%N then Some i else find_line r n (S i)
  end.

Definition line_no (p : rprogram) (i : nat) : N := match nth_error p i with Some (n, _) => n | None => 0%N end.

(* the DATA list: all items, in line order then statement order *)
Definition data_of_stmt (s : rstmt) : list data_elem := match s with SData items => items | _ => [] end.
Definition data_list (p : rprogram) : list (data_elem * N) :=
  flat_map (fun l => map (fun d => (d, fst l)) (flat_map data_of_stmt (snd l))) p.

Inductive outcome :=
| Next (pc : rpc) (st : rstate)            (* continue there *)
| Done (st : rstate)                       (* END, or fell off the last line *)
| Fail (e : rerr) (line : N) (st : rstate)
| NoFuel.

Definition store_scalar (v : bytes) (x : value) (st : rstate) : rstate + rerr :=
  if kind_ok v x then inl (set_vars' (update v x (r_vars st)) st) else inr RTypeMismatch.

Definition store_cell (a : bytes) (idx : list N) (x : value) (st : rstate) : rstate + rerr :=
  if negb (kind_ok a x) then inr RTypeMismatch
  else
    match ensure_array a (length idx) st with
    | inr er => inr er
    | inl st1 =>
        match lookup a (r_arrays st1) with
        | None => inr RBadSubscript
        | Some arr =>
            if negb (Nat.eqb (length idx) (length (ra_dims arr))) then inr RBadSubscript
            else match offset idx (ra_dims arr) 1%N with
                 | None => inr RBadSubscript
                 | Some o =>
                     inl (set_arrays' (update a (mkra (ra_dims arr) (replace_nth (ra_cells arr) (N.to_nat o) x))
                                              (r_arrays st1)) st1)
                 end
        end
    end.

(* drop the loop on [v] and every loop nested inside it *)
Fixpoint drop_loop (v : bytes) (l : list rloop) : option (rloop * list rloop) :=
  match l with
  | [] => None
  | x :: r =>
      match drop_loop v r with
      | Some (found, kept) => Some (found, x :: kept)
      | None => if bytes_eqb (rl_var x) v then Some (x, []) else None
      end
  end.

Definition text_of (v : value) : bytes := match v with VStr s => s | VNum x => show_f64 x end.

Section Exec.
  Variable fuel : nat.
  Variable p : rprogram.

  Definition ev (st : rstate) (e : rexpr) : eres value := eval fuel st e.

  Definition jump (n : N) (here : N) (st : rstate) : outcome :=
    match find_line p n 0 with
    | Some i => Next (i, 0) st
    | None => Fail RUndefinedLine here st
    end.

  Definition fail_at (er : rerr) (l : option N) (here : N) (st : rstate) : outcome :=
    Fail er (match l with Some n => n | None => here end) st.

  (* PRINT: items left to right; `,` is a tab; a trailing `;` suppresses the newline *)
  Fixpoint print_items (st : rstate) (items : list pitem) (semi : bool) (text : bytes) : eres (bool * bytes) :=
    match items with
    | [] => EOk (semi, text) st
    | PSemi :: r => print_items st r true text
    | PComma :: r => print_items st r false (text ++ [9%N])
    | PExpr e :: r =>
        match ev st e with
        | EOk v st1 => print_items st1 r false (text ++ text_of v)
        | EErr er l => EErr er l
        | EFuel => EFuel
        end
    end.

  Fixpoint read_targets (st : rstate) (targets : list (bytes * list rexpr)) (here : N) : outcome + rstate :=
    match targets with
    | [] => inr st
    | (v, idx) :: r =>
        match eval_subscripts (eval fuel) st idx with
        | EErr er l => inl (fail_at er l here st)
        | EFuel => inl NoFuel
        | EOk is st1 =>
            match nth_error (data_list p) (r_dpos st1) with
            | None => inl (Fail ROutOfData here st1)
            | Some (d, dline) =>
                let st2 := set_dpos' (S (r_dpos st1)) st1 in
                let val := if str_name v
                           then inl (VStr (match d with DStr s => s | DNum x => show_f64 x end))
                           else match d with DNum x => inl (VNum x) | DStr _ => inr RDataTypeMismatch end in
                match val with
                | inr er => inl (Fail er dline st2)           (* attributed to the DATA statement's line *)
                | inl x =>
                    match (match idx with [] => store_scalar v x st2 | _ => store_cell v is x st2 end) with
                    | inl st3 => read_targets st3 r here
                    | inr er => inl (Fail er here st2)
                    end
                end
            end
        end
    end.

  (* [after]: where control continues after this statement completes normally *)
  Fixpoint exec (s : rstmt) (after : rpc) (li : nat) (st : rstate) {struct s} : outcome :=
    let here := line_no p li in
    match s with
    | SRem | SData _ => Next after st
    | SEnd => Done st
    | SLet v idx e =>
        match eval_subscripts (eval fuel) st idx with
        | EErr er l => fail_at er l here st
        | EFuel => NoFuel
        | EOk is st1 =>
            match ev st1 e with
            | EErr er l => fail_at er l here st1
            | EFuel => NoFuel
            | EOk x st2 =>
                match (match idx with [] => store_scalar v x st2 | _ => store_cell v is x st2 end) with
                | inl st3 => Next after st3
                | inr er => Fail er here st2
                end
            end
        end
    | SPrint items =>
        match print_items st items false [] with
        | EOk (semi, text) st1 => Next after (add_out (if semi then text else text ++ [10%N]) st1)
        | EErr er l => fail_at er l here st
        | EFuel => NoFuel
        end
    | SIf c t e =>
        match ev st c with
        | EErr er l => fail_at er l here st
        | EFuel => NoFuel
        | EOk v st1 =>
            if truth v then
              (* with an ELSE clause, the rest of the line belongs to the ELSE side *)
              let after_t := match e with Some _ => (S li, 0) | None => after end in
              match t with
              | ALine n => jump n here st1
              | AStmt s1 => exec s1 after_t li st1
              end
            else
              match e with
              | None => Next (S li, 0) st1                    (* the rest of the line is the THEN side *)
              | Some (ALine n) => jump n here st1
              | Some (AStmt s2) => exec s2 after li st1
              end
        end
    | SGoto n => jump n here st
    | SGosub n =>
        if Nat.eqb (depth st) depth_cap then Fail RStackOverflow here st
        else match find_line p n 0 with
             | Some i => Next (i, 0) (set_calls' (after :: r_calls st) st)
             | None => Fail RUndefinedLine here st
             end
    | SReturn =>
        match r_calls st with
        | [] => Fail RReturnWithoutGosub here st
        | ret :: rest => Next ret (set_calls' rest st)
        end
    | SFor v a b stp =>
        match ev st a with
        | EErr er l => fail_at er l here st
        | EFuel => NoFuel
        | EOk (VStr _) _ => Fail RTypeMismatch here st
        | EOk (VNum from) st1 =>
            match ev st1 b with
            | EErr er l => fail_at er l here st1
            | EFuel => NoFuel
            | EOk (VStr _) _ => Fail RTypeMismatch here st1
            | EOk (VNum to) st2 =>
                let with_step (step : f64) (st3 : rstate) : outcome :=
                  (* limit and step are fixed here; an earlier loop on the same variable — and
                     everything nested inside it — is forgotten *)
                  let kept := match drop_loop v (r_loops st3) with Some (_, k) => k | None => r_loops st3 end in
                  if Nat.eqb (length kept) depth_cap then Fail RStackOverflow here (set_loops' kept st3)
                  else
                    let st4 := set_loops' (kept ++ [mkrl v to step after]) st3 in
                    match store_scalar v (VNum from) st4 with
                    | inl st5 => Next after st5              (* the body always runs once *)
                    | inr er => Fail er here st4
                    end in
                match stp with
                | None => with_step f64_one st2
                | Some se =>
                    match ev st2 se with
                    | EErr er l => fail_at er l here st2
                    | EFuel => NoFuel
                    | EOk (VStr _) _ => Fail RTypeMismatch here st2
                    | EOk (VNum step) st3 => with_step step st3
                    end
                end
            end
        end
    | SNext v =>
        match (match lookup v (r_vars st) with Some x => x | None => default_of v end) with
        | VStr _ => Fail RTypeMismatch here st
        | VNum cur =>
            match drop_loop v (r_loops st) with
            | None => Fail RNextWithoutFor here st
            | Some (lp, kept) =>                              (* inner loops are forgotten *)
                let st1 := set_loops' kept st in
                let nv := f64_add cur (rl_step lp) in
                let again := if f64_leb f64_zero (rl_step lp) then f64_leb nv (rl_to lp) else f64_leb (rl_to lp) nv in
                let st2 := if again then set_loops' (kept ++ [lp]) st1 else st1 in
                match store_scalar v (VNum nv) st2 with
                | inl st3 => Next (if again then rl_body lp else after) st3
                | inr er => Fail er here st2
                end
            end
        end
    | SRead targets =>
        match read_targets st targets here with
        | inl o => o
        | inr st1 => Next after st1
        end
    | SRestore => Next after (set_dpos' 0 st)
    | SDim a idx =>
        match eval_subscripts (eval fuel) st idx with
        | EErr er l => fail_at er l here st
        | EFuel => NoFuel
        | EOk is st1 =>
            match lookup a (r_arrays st1) with
            | Some _ => Fail RRedim here st1
            | None => match new_array a is with
                      | inl arr => Next after (set_arrays' (update a arr (r_arrays st1)) st1)
                      | inr er => Fail er here st1
                      end
            end
        end
    | SDef f params body => Next after (set_fns' (update f (mkrf params body here) (r_fns st)) st)
    end.

  (* one statement of the program *)
  Definition rstep (pc : rpc) (st : rstate) : outcome :=
    match nth_error p (fst pc) with
    | None => Done st                                          (* fell off the end *)
    | Some (_, stmts) =>
        match nth_error stmts (snd pc) with
        | None => Next (S (fst pc), 0) st                      (* end of the line *)
        | Some s => exec s (fst pc, S (snd pc)) (fst pc) st
        end
    end.

  (* run for at most [n] statements *)
  Fixpoint rrun (n : nat) (pc : rpc) (st : rstate) : outcome :=
    match n with
    | O => Next pc st
    | S n' => match rstep pc st with
              | Next pc' st' => rrun n' pc' st'
              | other => other
              end
    end.
End Exec.

(* the transcript of a run: printed text and, on failure, the error kind and line *)
Definition transcript_of (o : outcome) : list bytes * option (rerr * N) :=
  match o with
  | Next _ st | Done st => (r_out st, None)
  | Fail e l st => (r_out st, Some (e, l))
  | NoFuel => ([], None)
  end.

Definition run_ref (fuel steps : nat) (seed : N) (p : rprogram) : outcome :=
  rrun fuel p steps (0, 0) (r_init seed).

Lemma lookup_update_same {V} k (v : V) l : lookup k (update k v l) = Some v.
Proof.
  induction l as [|[k' v'] l IH]; cbn [update lookup].
  - rewrite (proj2 (bytes_eqb_eq k k) eq_refl). reflexivity.
  - destruct (bytes_eqb k k') eqn:E; cbn [lookup]; [rewrite (proj2 (bytes_eqb_eq k k) eq_refl); reflexivity|rewrite E; exact IH].
Qed.
