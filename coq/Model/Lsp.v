(* Model/Lsp.v — the language server's encoders (abasic-lsp/src/main.rs):
   analyze_source_file (diagnostics) and get_semantic_tokens (delta-encoded
   token data).  Positions are (file line, UTF-16 column); the analyzer's
   byte offsets are converted with the text of the line they refer to.
   JSON-RPC framing and the document table are glue (exercised, not modelled,
   except: a document's analysis is the analysis of the latest text). *)
From Coq Require Import List NArith ZArith Bool.
From Abasic Require Import Model.Bytes Model.Num Model.Token Model.Data Model.Lexer Gen.Tables
     Model.State Model.Eval Model.Interp Model.Analyzer.
Import ListNotations.
Local Open Scope nat_scope.

(* UTF-16 units contributed by the character that starts with byte b
   (0 for a continuation byte) *)
Definition units_of_lead (b : N) : nat :=
  if is_cont b then 0 else if (240 <=? b)%N then 2 else 1.

Fixpoint units (s : bytes) : nat :=
  match s with [] => 0 | b :: r => units_of_lead b + units r end.

(* the UTF-16 column of byte offset [off] in [line] *)
Definition utf16_col (line : bytes) (off : nat) : nat := units (firstn off line).
Definition utf16_width (line : bytes) : nat := units line.

Record diag := mkdiag { d_line : nat; d_start : nat; d_end : nat; d_severity : N }.

Definition severity_of (m : message) : N := match m with MError _ _ _ => 1%N | MWarning _ _ _ => 2%N end.

Definition diag_of (lines : list bytes) (m : source_map) (msg : message) : list diag :=
  match map_to_source m msg with
  | Some (fl, (a, b)) =>
      let line := nth fl lines [] in
      [mkdiag fl (utf16_col line a) (utf16_col line b) (severity_of msg)]
  | None => []
  end.

Definition diagnostics_of (lines : list bytes) (a : analysis) : list diag :=
  flat_map (diag_of lines (an_map a)) (an_messages a).

(* semantic tokens: (delta_line, delta_start, length, type, modifiers = 0) *)
Definition stoken := (nat * nat * nat * N)%type.

Fixpoint line_tokens (line : bytes) (first_delta_line : nat) (prev_start : nat) (is_first : bool)
                     (ts : list (N * (nat * nat))) : list stoken :=
  match ts with
  | [] => []
  | (c, (a, b)) :: r =>
      let s := utf16_col line a in
      let e := utf16_col line b in
      ((if is_first then first_delta_line else 0), s - prev_start, e - s, c)
        :: line_tokens line first_delta_line s false r
  end.

(* [i]: current file line, [prev]: line of the previous token *)
Fixpoint tokens_from (lines : list bytes) (tss : list (list (N * (nat * nat)))) (i prev : nat) : list stoken :=
  match tss with
  | [] => []
  | ts :: r =>
      let line := nth i lines [] in
      match ts with
      | [] => tokens_from lines r (S i) prev
      | _ => line_tokens line (i - prev) 0 true ts ++ tokens_from lines r (S i) i
      end
  end.

Definition semantic_tokens_of (lines : list bytes) (a : analysis) : list stoken :=
  tokens_from lines (an_tokens a) 0 0.

(* what a client reconstructs: absolute (line, start, length, type) *)
Fixpoint decode_tokens (l : list stoken) (line col : nat) : list (nat * nat * nat * N) :=
  match l with
  | [] => []
  | (dl, ds, len, c) :: r =>
      let line' := line + dl in
      let col' := if Nat.eqb dl 0 then col + ds else ds in
      (line', col', len, c) :: decode_tokens r line' col'
  end.

(* the server, as far as the property goes: the analysis of the latest text *)
Definition lsp_answer (fuel : nat) (text : bytes) : list diag * list stoken :=
  let a := analyze fuel text in
  let lines := split_lines text in
  (diagnostics_of lines a, semantic_tokens_of lines a).

(* ------------------------------------------------------------------ *)
(* canonical renderings used by the correspondence *)
Definition canon_diag (d : diag) : bytes :=
  show_nat (d_line d) ++ [46%N] ++ show_nat (d_start d) ++ [46%N] ++ show_nat (d_end d) ++ [46%N] ++ show_N (d_severity d).

Definition canon_stoken (t : stoken) : bytes :=
  let '(dl, ds, len, c) := t in
  show_nat dl ++ [44%N] ++ show_nat ds ++ [44%N] ++ show_nat len ++ [44%N] ++ show_N c ++ [44%N; 48%N].
