(* Data.v — the DATA / INPUT item parser, abasic-core/src/data.rs:78-201.
   The parser works on characters (not bytes); a character is its UTF-8 byte
   sequence (Bytes.utf8_chars). *)
From Coq Require Import List NArith ZArith Bool.
From Abasic Require Import Model.Bytes Model.Num Model.Token.
Import ListNotations.
Open Scope N_scope.

Definition uchar := bytes.

Definition char_is (c : uchar) (b : N) : bool :=
  match c with [x] => x =? b | _ => false end.

Definition char_ws (c : uchar) : bool := is_unicode_ws (code_point c).

(* str::trim on a character list *)
Fixpoint drop_ws (cs : list uchar) : list uchar :=
  match cs with
  | c :: r => if char_ws c then drop_ws r else cs
  | [] => []
  end.

Definition trim_chars (cs : list uchar) : list uchar := rev (drop_ws (rev (drop_ws cs))).

Definition all_ws (cs : list uchar) : bool := forallb char_ws cs.

(* push_current_element (data.rs:105-120): unquoted text is trimmed and becomes
   a number when it parses as one; quoted text is always a string, verbatim. *)
Definition elem_unquoted (cur : list uchar) : data_elem :=
  let s := concat (trim_chars cur) in
  match parse_f64 s with
  | Some x => DNum x
  | None => DStr s
  end.

Definition elem_quoted (cur : list uchar) : data_elem := DStr (concat cur).

(* finish (data.rs:158-170) *)
Definition dp_finish (quoted : bool) (cur : list uchar) (elems : list data_elem) : list data_elem :=
  let push := if quoted then elem_quoted cur else elem_unquoted cur in
  let pending := if quoted then (match concat cur with [] => false | _ => true end)
                 else negb (all_ws cur) in
  if pending then elems ++ [push]
  else match elems with [] => [push] | _ => elems end.

(* parse_char loop (data.rs:122-156, 183-201).  [n] = bytes_chomped. *)
Fixpoint dp_run (cs : list uchar) (quoted : bool) (cur : list uchar)
         (elems : list data_elem) (n : nat) : list data_elem * nat :=
  match cs with
  | [] => (dp_finish quoted cur elems, n)
  | c :: cs' =>
    let n' := (n + length c)%nat in
    if quoted then
      if char_is c 34 then dp_run cs' false [] (elems ++ [elem_quoted cur]) n'
      else dp_run cs' true (cur ++ [c]) elems n'
    else if char_is c 58 then (dp_finish false cur elems, n)
    else if char_is c 44 then
      if all_ws cur then dp_run cs' false cur elems n'
      else dp_run cs' false [] (elems ++ [elem_unquoted cur]) n'
    else if char_is c 34 then
      if all_ws cur then dp_run cs' true [] elems n'
      else dp_run cs' false (cur ++ [c]) elems n'
    else dp_run cs' false (cur ++ [c]) elems n'
  end.

(* parse_data_until_colon *)
Definition parse_data (s : bytes) : list data_elem * nat :=
  dp_run (utf8_chars s) false [] [] 0%nat.

(* Value::coerce_from_data_element helpers live in Interp; the canonical
   rendering of a parse result, as the harness prints it: *)
Definition canon_data_result (r : list data_elem * nat) : bytes :=
  join [44] (map canon_data_elem (fst r)) ++ [9] ++ show_nat (snd r).
