(* Bytes.v — byte strings, ASCII classes, UTF-8 structure.
   Text is [list N] with every element < 256 (a Rust &str / String seen as
   bytes).  Classification is by [N] comparison so that [lia] closes range
   goals. *)
From Coq Require Import List NArith ZArith Bool Lia Ascii.
From Coq Require String.
Export String.StringSyntax.
Delimit Scope string_scope with string.
Bind Scope string_scope with String.string.
Import ListNotations.
Open Scope N_scope.

Definition byte := N.
Definition bytes := list N.

Fixpoint bytes_eqb (a b : bytes) : bool :=
  match a, b with
  | [], [] => true
  | x :: a', y :: b' => (x =? y) && bytes_eqb a' b'
  | _, _ => false
  end.

Lemma bytes_eqb_eq a b : bytes_eqb a b = true <-> a = b.
Proof.
  revert b; induction a as [|x a IH]; destruct b as [|y b]; cbn; try (split; congruence).
  rewrite andb_true_iff, N.eqb_eq, IH. split; [intros [-> ->]; reflexivity | intros H; inversion H; auto].
Qed.

Lemma bytes_eqb_refl a : bytes_eqb a a = true.
Proof. apply bytes_eqb_eq; reflexivity. Qed.

(* Lexicographic byte order: Rust's [Ord for str]. *)
Fixpoint bytes_compare (a b : bytes) : comparison :=
  match a, b with
  | [], [] => Eq
  | [], _ :: _ => Lt
  | _ :: _, [] => Gt
  | x :: a', y :: b' =>
      match x ?= y with Eq => bytes_compare a' b' | c => c end
  end.

(* Coq string literal -> bytes, for readable examples. *)
Fixpoint bs (s : String.string) : bytes :=
  match s with
  | String.EmptyString => []
  | String.String c s' => N_of_ascii c :: bs s'
  end.

Definition wf_bytes (s : bytes) : Prop := Forall (fun b => b < 256) s.

(* ASCII classes (Rust u8 is_ascii_xxx methods) *)
Definition is_digit (b : N) : bool := (48 <=? b) && (b <=? 57).
Definition is_upper (b : N) : bool := (65 <=? b) && (b <=? 90).
Definition is_lower (b : N) : bool := (97 <=? b) && (b <=? 122).
Definition is_alpha (b : N) : bool := is_upper b || is_lower b.
Definition is_alnum (b : N) : bool := is_alpha b || is_digit b.
Definition to_upper (b : N) : N := if is_lower b then b - 32 else b.
Definition to_lower (b : N) : N := if is_upper b then b + 32 else b.

(* u8::is_ascii_whitespace: SPACE, TAB, LF, FF, CR (not VT). *)
Definition is_ascii_ws (b : N) : bool :=
  (b =? 32) || (b =? 9) || (b =? 10) || (b =? 12) || (b =? 13).

(* LineCruncher::is_basic_whitespace (line_cruncher.rs:17) *)
Definition is_basic_ws (b : N) : bool := is_ascii_ws b && negb (b =? 10).

Definition upper_bytes (s : bytes) : bytes := map to_upper s.

(* ------------------------------------------------------------------ *)
(* UTF-8 *)

(* A continuation byte 10xxxxxx. *)
Definition is_cont (b : N) : bool := (128 <=? b) && (b <? 192).

(* str::is_char_boundary: index 0, index len, or a non-continuation byte. *)
Definition char_boundary (s : bytes) (i : nat) : bool :=
  match i with
  | O => true
  | _ => match nth_error s i with
         | Some b => negb (is_cont b)
         | None => Nat.eqb i (length s)
         end
  end.

(* Length in bytes of the UTF-8 sequence introduced by lead byte b
   (1 for ASCII and, totalising, for stray continuation bytes). *)
Definition utf8_len (b : N) : nat :=
  if b <? 192 then 1%nat else if b <? 224 then 2%nat else if b <? 240 then 3%nat else 4%nat.

(* Strict validity of a UTF-8 string, as Rust's [str] guarantees
   (no overlongs, no surrogates, max U+10FFFF). *)
Fixpoint valid_utf8_fuel (fuel : nat) (s : bytes) : bool :=
  match fuel with
  | O => match s with [] => true | _ => false end
  | S fuel' =>
    match s with
    | [] => true
    | b0 :: r =>
      if b0 <? 128 then valid_utf8_fuel fuel' r
      else if b0 <? 194 then false
      else if b0 <? 224 then
        match r with
        | b1 :: r' => is_cont b1 && valid_utf8_fuel fuel' r'
        | _ => false
        end
      else if b0 <? 240 then
        match r with
        | b1 :: b2 :: r' =>
            is_cont b1 && is_cont b2
            && (if b0 =? 224 then 160 <=? b1 else true)
            && (if b0 =? 237 then b1 <? 160 else true)
            && valid_utf8_fuel fuel' r'
        | _ => false
        end
      else if b0 <? 245 then
        match r with
        | b1 :: b2 :: b3 :: r' =>
            is_cont b1 && is_cont b2 && is_cont b3
            && (if b0 =? 240 then 144 <=? b1 else true)
            && (if b0 =? 244 then b1 <? 144 else true)
            && valid_utf8_fuel fuel' r'
        | _ => false
        end
      else false
    end
  end.

Definition valid_utf8 (s : bytes) : bool := valid_utf8_fuel (length s) s.

(* Split into characters (each a 1..4 byte list).  On valid UTF-8 this is
   exactly [str::chars]; it is total on anything. *)
Fixpoint utf8_chars_fuel (fuel : nat) (s : bytes) : list bytes :=
  match fuel with
  | O => []
  | S fuel' =>
    match s with
    | [] => []
    | b0 :: _ =>
        let n := utf8_len b0 in
        firstn n s :: utf8_chars_fuel fuel' (skipn n s)
    end
  end.

Definition utf8_chars (s : bytes) : list bytes := utf8_chars_fuel (length s) s.

(* Code point of one encoded character. *)
Definition code_point (c : bytes) : N :=
  match c with
  | [b0] => b0
  | [b0; b1] => (b0 - 192) * 64 + (b1 - 128)
  | [b0; b1; b2] => (b0 - 224) * 4096 + (b1 - 128) * 64 + (b2 - 128)
  | [b0; b1; b2; b3] => (b0 - 240) * 262144 + (b1 - 128) * 4096 + (b2 - 128) * 64 + (b3 - 128)
  | _ => 0
  end.

(* char::is_whitespace (Unicode White_Space). *)
Definition is_unicode_ws (cp : N) : bool :=
  ((9 <=? cp) && (cp <=? 13)) || (cp =? 32) || (cp =? 133) || (cp =? 160)
  || (cp =? 5760) || ((8192 <=? cp) && (cp <=? 8202)) || (cp =? 8232) || (cp =? 8233)
  || (cp =? 8239) || (cp =? 8287) || (cp =? 12288).

(* UTF-16 length of a character given its lead byte: 2 units beyond the BMP. *)
Definition utf16_units (c : bytes) : nat :=
  match c with b0 :: _ => if 240 <=? b0 then 2%nat else 1%nat | [] => 0%nat end.

Definition utf16_len (s : bytes) : nat :=
  fold_left (fun acc c => (acc + utf16_units c)%nat) (utf8_chars s) 0%nat.

(* ------------------------------------------------------------------ *)
(* Decimal rendering of naturals (u64 / usize Display). *)

Fixpoint show_N_fuel (fuel : nat) (n : N) (acc : bytes) : bytes :=
  match fuel with
  | O => acc
  | S fuel' =>
      let d := 48 + n mod 10 in
      let q := n / 10 in
      if q =? 0 then d :: acc else show_N_fuel fuel' q (d :: acc)
  end.

Definition show_N (n : N) : bytes := show_N_fuel (S (N.to_nat (N.log2 n))) n [].

Definition show_nat (n : nat) : bytes := show_N (N.of_nat n).

(* Hexadecimal, fixed width (for bit patterns in canonical renderings). *)
Definition hex_digit (d : N) : N := if d <? 10 then 48 + d else 87 + d.

Fixpoint show_hex_width (w : nat) (n : N) (acc : bytes) : bytes :=
  match w with
  | O => acc
  | S w' => show_hex_width w' (n / 16) (hex_digit (n mod 16) :: acc)
  end.

(* The escaping used by the harness (abasic_core::verif::esc). *)
Definition esc_keep (b : N) : bool :=
  (32 <=? b) && (b <=? 126)
  && negb ((b =? 92) || (b =? 124) || (b =? 59) || (b =? 44) || (b =? 61) || (b =? 91)
           || (b =? 93) || (b =? 123) || (b =? 125) || (b =? 64) || (b =? 58)).

Definition esc_byte (b : N) : bytes :=
  if esc_keep b then [b] else 92 :: 120 :: show_hex_width 2 b [].

Definition esc (s : bytes) : bytes := flat_map esc_byte s.

(* Inverse, used to read harness observations written into cases files as
   Coq string literals. *)
Definition unhex (c : N) : N :=
  if is_digit c then c - 48 else if is_lower c then c - 87 else c - 55.

Fixpoint unesc_fuel (fuel : nat) (s : bytes) : bytes :=
  match fuel with
  | O => []
  | S fuel' =>
    match s with
    | 92 :: 120 :: h1 :: h2 :: r => (unhex h1 * 16 + unhex h2) :: unesc_fuel fuel' r
    | b :: r => b :: unesc_fuel fuel' r
    | [] => []
    end
  end.

Definition unesc (s : bytes) : bytes := unesc_fuel (length s) s.

Definition join (sep : bytes) (l : list bytes) : bytes :=
  match l with
  | [] => []
  | x :: r => x ++ flat_map (fun y => sep ++ y) r
  end.
