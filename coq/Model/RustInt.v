(* Model/RustInt.v — the meaning of the Rust fragment that tools/gen_tables.py
   translates mechanically (Gen/RandomRs.v): u64 arithmetic as debug builds do
   it (an overflow, or a remainder by zero, is a panic = [None]) and the
   outcome of a translated `Result`-returning method over one u64 field. *)
From Coq Require Import NArith ZArith String.
From Abasic Require Import Model.Num.
Open Scope N_scope.

Definition U64_LIMIT : N := 2 ^ 64.

Definition u64_chk (x : N) : option N := if x <? U64_LIMIT then Some x else None.

Definition u64_add (a b : option N) : option N :=
  match a, b with Some x, Some y => u64_chk (x + y) | _, _ => None end.
Definition u64_mul (a b : option N) : option N :=
  match a, b with Some x, Some y => u64_chk (x * y) | _, _ => None end.
Definition u64_rem (a b : option N) : option N :=
  match a, b with Some x, Some y => if y =? 0 then None else Some (x mod y) | _, _ => None end.

(* `x as f64` for a u64 x *)
Definition u64_as_f64 (x : N) : f64 := f64_of_Z (Z.of_N x).

(* outcome of a translated method: panic, Err(InterpreterError::<name>), or
   Ok(value) with the new content of the field *)
Inductive rs_result : Type :=
| RsPanic
| RsErr (e : string)
| RsOk (field : N) (v : f64).

(* outcome of a translated usize computation (Gen/ArraysRs.v): an unchecked
   `+` / `*` / `+=` / `*=` that overflows is a panic; `checked_add` /
   `checked_mul` followed by `.ok_or(E)?` is the error E; `return Err(E)` is
   the error E *)
Inductive rs_res (A : Type) : Type :=
| UPanic
| UErr (e : string)
| UOk (v : A).
Arguments UPanic {A}.
Arguments UErr {A} e.
Arguments UOk {A} v.
