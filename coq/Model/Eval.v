(* Eval.v — the token-stream evaluators: expression.rs, operators.rs,
   statement.rs.  One definition per Rust function, same order of effects.
   Recursion (parentheses, function bodies, nested IF) is on [fuel]; loops are
   [repeat_m] on the same fuel. *)
From Coq Require Import List NArith ZArith Bool Lia.
From Abasic Require Import Model.Bytes Model.Num Model.Token Model.Data Model.Lexer Gen.Tables Model.State.
Import ListNotations.
Open Scope N_scope.

(* ------------------------------------------------------------------ *)
(* operators.rs *)

Inductive unary_op := UPositive | UNegative | UNot.
Inductive addsub_op := OAdd | OSubtract.
Inductive muldiv_op := OMultiply | ODivide.
Inductive eq_op := OEqualTo | OLessThan | OLessThanOrEqualTo | OGreaterThan | OGreaterThanOrEqualTo | ONotEqualTo.

Definition unary_of_token (t : token) : option unary_op :=
  match t with TPlus => Some UPositive | TMinus => Some UNegative | TNot => Some UNot | _ => None end.
Definition addsub_of_token (t : token) : option addsub_op :=
  match t with TPlus => Some OAdd | TMinus => Some OSubtract | _ => None end.
Definition muldiv_of_token (t : token) : option muldiv_op :=
  match t with TMultiply => Some OMultiply | TDivide => Some ODivide | _ => None end.
Definition eq_of_token (t : token) : option eq_op :=
  match t with
  | TEquals => Some OEqualTo | TLessThan => Some OLessThan
  | TLessThanOrEqualTo => Some OLessThanOrEqualTo | TGreaterThan => Some OGreaterThan
  | TGreaterThanOrEqualTo => Some OGreaterThanOrEqualTo | TNotEquals => Some ONotEqualTo
  | _ => None
  end.

Definition eval_unary (op : unary_op) (v : value) : M value :=
  match op with
  | UPositive => ret v
  | UNegative => match v with VNum x => ret (VNum (f64_neg x)) | VStr _ => fail ETypeMismatch end
  | UNot => ret (from_bool (negb (to_bool v)))
  end.

Definition eval_addsub (op : addsub_op) (l r : value) : M value :=
  match l, r with
  | VNum a, VNum b => ret (VNum (match op with OAdd => f64_add a b | OSubtract => f64_sub a b end))
  | _, _ => fail ETypeMismatch
  end.

Definition eval_muldiv (op : muldiv_op) (l r : value) : M value :=
  match l, r with
  | VNum a, VNum b =>
      match op with
      | OMultiply => ret (VNum (f64_mul a b))
      | ODivide => if f64_eqb b f64_zero then fail EDivisionByZero else ret (VNum (f64_div a b))
      end
  | _, _ => fail ETypeMismatch
  end.

Definition cmp_num (op : eq_op) (a b : f64) : bool :=
  match op with
  | OEqualTo => f64_eqb a b
  | OLessThan => f64_ltb a b
  | OLessThanOrEqualTo => f64_leb a b
  | OGreaterThan => f64_ltb b a
  | OGreaterThanOrEqualTo => f64_leb b a
  | ONotEqualTo => negb (f64_eqb a b)
  end.

Definition cmp_str (op : eq_op) (a b : bytes) : bool :=
  let c := bytes_compare a b in
  match op with
  | OEqualTo => match c with Eq => true | _ => false end
  | OLessThan => match c with Lt => true | _ => false end
  | OLessThanOrEqualTo => match c with Gt => false | _ => true end
  | OGreaterThan => match c with Gt => true | _ => false end
  | OGreaterThanOrEqualTo => match c with Lt => false | _ => true end
  | ONotEqualTo => match c with Eq => false | _ => true end
  end.

Definition eval_eq (op : eq_op) (l r : value) : M value :=
  match l, r with
  | VStr a, VStr b => ret (from_bool (cmp_str op a b))
  | VNum a, VNum b => ret (from_bool (cmp_num op a b))
  | _, _ => fail ETypeMismatch
  end.

Definition eval_and (l r : value) : M value := ret (from_bool (to_bool l && to_bool r)).
Definition eval_or (l r : value) : M value := ret (from_bool (to_bool l || to_bool r)).

(* f64::powf is an oracle: looked up among the calls logged from the
   implementation run; a miss is OracleMiss (never agreement). *)
Fixpoint pow_lookup (x y : Z) (t : list (Z * Z * Z)) : option Z :=
  match t with
  | [] => None
  | (a, b, r) :: t' => if (Z.eqb a x && Z.eqb b y)%bool then Some r else pow_lookup x y t'
  end.

Definition eval_pow (l r : value) : M value :=
  match l with
  | VStr _ => fail ETypeMismatch
  | VNum a =>
      match r with
      | VStr _ => fail ETypeMismatch
      | VNum b =>
          t <- get pow_oracle ;;
          match pow_lookup (f64_bits a) (f64_bits b) t with
          | Some z => ret (VNum (f64_of_bits z))
          | None => oracle_miss
          end
      end
  end.

(* ------------------------------------------------------------------ *)
(* expression.rs *)

Section Expression.
  Variable fuel : nat.            (* bound on loop iterations at this level *)
  Variable rec : M value.         (* evaluate_expression, one level down *)

  Definition expect_number (v : value) : M f64 :=
    match v with VNum x => ret x | VStr _ => fail ETypeMismatch end.

  (* evaluate_array_index (expression.rs:27-43) *)
  Definition evaluate_array_index : M (list N) :=
    expect_next_token TLeftParen ;;;
    idx <- repeat_m fuel (fun acc : list N =>
             v <- rec ;;
             match v with
             | VStr _ => fail ETypeMismatch
             | VNum x =>
                 let i := f64_to_i64_sat x in
                 if (i <? 0)%Z then fail EIllegalQuantity
                 else
                   let acc' := acc ++ [Z.to_N i] in
                   c <- accept_next_token TComma ;;
                   ret (if c then inl acc' else inr acc')
             end) [] ;;
    expect_next_token TRightParen ;;;
    ret idx.

  (* evaluate_unary_number_function_arg *)
  Definition unary_number_function_arg : M f64 :=
    expect_next_token TLeftParen ;;;
    v <- rec ;;
    x <- expect_number v ;;
    expect_next_token TRightParen ;;;
    ret x.

  (* evaluate_user_defined_function_call (expression.rs:66-100) *)
  Fixpoint bind_arguments (args : list bytes) (i arity : nat) (bindings : list (bytes * value))
    : M (list (bytes * value)) :=
    match args with
    | [] => ret bindings
    | a :: r =>
        v <- rec ;;
        (if type_matches a v then ret tt else fail ETypeMismatch) ;;;
        let bindings' := alist_set a v bindings in
        (if Nat.ltb i (Nat.pred arity) then expect_next_token TComma else ret tt) ;;;
        bind_arguments r (S i) arity bindings'
    end.

  (* the function body: on failure the error's location is fixed first, then
     the frame is popped (expression.rs, after the frame-leak fix) *)
  Definition call_body : M value :=
    fun s =>
      match rec s with
      | (Ok v, s1) =>
          match pop_function_call s1 with
          | (Ok _, s2) => (Ok v, s2)
          | (Err e l, s2) => (Err e l, s2)
          | (Panic p, s2) => (Panic p, s2)
          | (OutOfFuel, s2) => (OutOfFuel, s2)
          | (OracleMiss, s2) => (OracleMiss, s2)
          end
      | (Err e l, s1) =>
          let l' := populate_error_location e l s1 in
          match pop_function_call s1 with
          | (Ok _, s2) => (Err e l', s2)
          | (Err e2 l2, s2) => (Err e2 l2, s2)
          | (Panic p, s2) => (Panic p, s2)
          | (OutOfFuel, s2) => (OutOfFuel, s2)
          | (OracleMiss, s2) => (OracleMiss, s2)
          end
      | other => other
      end.

  Definition user_function_call (name : bytes) : M (option value) :=
    fs <- get functions ;;
    match alist_get name fs with
    | None => ret None
    | Some d =>
        expect_next_token TLeftParen ;;;
        bindings <- bind_arguments (fn_args d) 0 (length (fn_args d)) [] ;;
        expect_next_token TRightParen ;;;
        push_function_call name bindings ;;;
        v <- call_body ;;
        ret (Some v)
    end.

  (* evaluate_function_call *)
  Definition function_call (name : bytes) : M (option value) :=
    if bytes_eqb name (bs "ABS") then
      x <- unary_number_function_arg ;; ret (Some (VNum (f64_abs x)))
    else if bytes_eqb name (bs "INT") then
      x <- unary_number_function_arg ;; ret (Some (VNum (f64_floor x)))
    else if bytes_eqb name (bs "RND") then
      x <- unary_number_function_arg ;; r <- rng_rnd x ;; ret (Some (VNum r))
    else user_function_call name.

  (* evaluate_expression_term *)
  Definition expression_term : M value :=
    t <- next_unwrapped_token ;;
    match t with
    | TString s => ret (VStr s)
    | TNumber x => ret (VNum x)
    | TSymbol sym =>
        p <- peek_is TLeftParen ;;
        if p then
          fv <- function_call sym ;;
          match fv with
          | Some v => ret v
          | None =>
              idx <- evaluate_array_index ;;
              maybe_warn_undeclared_array sym ;;;
              arrays_get sym idx
          end
        else
          sv <- find_variable_value_in_stack sym ;;
          match sv with
          | Some v => ret v
          | None =>
              w <- get enable_warnings ;;
              vs <- get variables ;;
              (if w && negb (alist_has sym vs)
               then warn (bs "Use of undeclared variable '" ++ sym ++ bs "'.")
               else ret tt) ;;;
              variables_get sym
          end
    | _ => fail EUnexpectedToken
    end.

  Definition parenthesized_expression : M value :=
    p <- accept_next_token TLeftParen ;;
    if p then (v <- rec ;; expect_next_token TRightParen ;;; ret v)
    else expression_term.

  Definition unary_operator : M value :=
    op <- try_next_token unary_of_token ;;
    v <- parenthesized_expression ;;
    match op with
    | Some op => eval_unary op v
    | None => ret v
    end.

  (* one left-folding tier: value = operand; while let Some(op) = get_op: ... *)
  Definition tier {O} (get_op : M (option O)) (operand : M value) (apply : O -> value -> value -> M value) : M value :=
    v0 <- operand ;;
    repeat_m fuel (fun v =>
      o <- get_op ;;
      match o with
      | None => ret (inr v)
      | Some op => w <- operand ;; v' <- apply op v w ;; ret (inl v')
      end) v0.

  Definition accept_as {O} (t : token) (o : O) : M (option O) :=
    b <- accept_next_token t ;; ret (if b then Some o else None).

  Definition exponent_expression : M value :=
    tier (accept_as TCaret tt) unary_operator (fun _ => eval_pow).
  Definition multiply_or_divide_expression : M value :=
    tier (try_next_token muldiv_of_token) exponent_expression eval_muldiv.
  Definition plus_or_minus_expression : M value :=
    tier (try_next_token addsub_of_token) multiply_or_divide_expression eval_addsub.
  Definition equality_expression : M value :=
    tier (try_next_token eq_of_token) plus_or_minus_expression eval_eq.
  Definition logical_and_expression : M value :=
    tier (accept_as TAnd tt) equality_expression (fun _ => eval_and).
  Definition logical_or_expression : M value :=
    tier (accept_as TOr tt) logical_and_expression (fun _ => eval_or).
End Expression.

(* evaluate_expression: the nesting guard (program.rs enter/exit_nested_evaluation)
   around the loosest tier.  [n] is the nesting counter at the call. *)
Fixpoint evaluate_expression (fuel : nat) (n : nat) : M value :=
  match fuel with
  | O => out_of_fuel
  | S f => if Nat.eqb n max_nesting then fail EStackOverflow
           else logical_or_expression f (evaluate_expression f (S n))
  end.

(* ------------------------------------------------------------------ *)
(* statement.rs *)

Record lvalue := mklv { lv_sym : bytes; lv_index : option (list N) }.

Section Statement.
  Variable fuel : nat.
  Variable nest : nat.            (* nesting counter inside this statement *)
  Variable rec_stmt : M unit.     (* evaluate_statement, one level down *)

  Definition expr : M value := evaluate_expression fuel nest.

  Definition parse_optional_array_index : M (option (list N)) :=
    p <- peek_is TLeftParen ;;
    if negb p then ret None
    else (i <- evaluate_array_index fuel expr ;; ret (Some i)).

  (* interpreter.rs:105-113 *)
  Definition rewind_program_and_await_input : M unit :=
    rewind_before_token TInput ;;;
    modify (set_state AwaitingInput).

  (* interpreter.rs:115-120 *)
  Definition break_at_current_location : M unit :=
    modify (set_state Idle) ;;;
    l <- get_line_number ;;
    push_output (OBreak l) ;;;
    program_break_at_current_location.

  Definition evaluate_goto_statement : M unit :=
    t <- next_token ;;
    match t with
    | Some (TNumber x) => goto_line_number (Z.to_N (f64_to_u64_sat x))
    | _ => fail EUndefinedStatement
    end.

  Definition evaluate_gosub_statement : M unit :=
    t <- next_token ;;
    match t with
    | Some (TNumber x) => gosub_line_number (Z.to_N (f64_to_u64_sat x))
    | _ => fail EUndefinedStatement
    end.

  Definition statement_or_goto_line_number : M unit :=
    t <- peek_next_token ;;
    match t with
    | Some (TNumber _) => evaluate_goto_statement
    | _ => rec_stmt
    end.

  (* evaluate_if_statement (statement.rs:72-108) *)
  Definition evaluate_if_statement : M unit :=
    c <- expr ;;
    expect_next_token TThen ;;;
    if to_bool c then
      statement_or_goto_line_number ;;;
      e <- peek_is TElse ;;
      if e then discard_remaining_tokens else ret tt
    else
      repeat_m fuel (fun _ : unit =>
        t <- next_token ;;
        match t with
        | None => ret (inr tt)
        | Some TColon => discard_remaining_tokens ;;; ret (inl tt)
        | Some TElse =>
            statement_or_goto_line_number ;;;
            e <- peek_is TElse ;;
            (if e then discard_remaining_tokens else ret tt) ;;;    (* a further ELSE belongs to an enclosing IF *)
            ret (inr tt)
        | Some _ => ret (inl tt)
        end) tt.

  Definition assign_value (lv : lvalue) (v : value) : M unit :=
    match lv_index lv with
    | Some idx =>
        maybe_warn_undeclared_array (lv_sym lv) ;;;
        arrays_set (lv_sym lv) idx v
    | None => variables_set (lv_sym lv) v
    end.

  Definition evaluate_assignment_statement (sym : bytes) : M unit :=
    idx <- parse_optional_array_index ;;
    expect_next_token TEquals ;;;
    v <- expr ;;
    assign_value (mklv sym idx) v.

  Definition evaluate_let_statement : M unit :=
    t <- next_token ;;
    match t with
    | Some (TSymbol sym) => evaluate_assignment_statement sym
    | _ => fail EUnexpectedToken
    end.

  Definition parse_lvalue : M lvalue :=
    t <- next_token ;;
    match t with
    | Some (TSymbol sym) => idx <- parse_optional_array_index ;; ret (mklv sym idx)
    | _ => fail EUnexpectedToken
    end.

  Definition evaluate_read_statement : M unit :=
    repeat_m fuel (fun _ : unit =>
      lv <- parse_lvalue ;;
      e <- next_data_element ;;
      match e with
      | None => fail EOutOfData
      | Some e =>
          v <- lift_res (coerce_data (lv_sym lv) e) ;;
          assign_value lv v ;;;
          c <- accept_next_token TComma ;;
          ret (if c then inl tt else inr tt)
      end) tt.

  (* Interpreter::take_input (interpreter.rs:75-84) *)
  Definition take_input : M (option (list data_elem * bool)) :=
    i <- get input ;;
    match i with
    | None => ret None
    | Some text =>
        modify (set_input None) ;;;
        let '(elems, n) := parse_data text in
        ret (Some (elems, Nat.ltb n (length text)))
    end.

  Definition evaluate_input_statement : M unit :=
    ti <- take_input ;;
    match ti with
    | Some (data, leftover) =>
        lv <- parse_lvalue ;;
        match data with
        | [] => panic PCellIndex                     (* data[0]; parse_data never returns [] *)
        | first :: rest =>
            let excess := match rest with [] => leftover | _ => true end in
            match coerce_data (lv_sym lv) first with
            | Ok v =>
                assign_value lv v ;;;
                if excess then push_output OExtraIgnored else ret tt
            | Err EDataTypeMismatch _ =>
                push_output OReenter ;;;
                rewind_program_and_await_input
            | Err e l => fun s => (Err e l, s)
            | _ => panic PCellIndex
            end
        end
    | None => rewind_program_and_await_input
    end.

  Definition evaluate_dim_statement : M unit :=
    lv <- parse_lvalue ;;
    match lv_index lv with
    | None => ret tt
    | Some idx => arrays_create (lv_sym lv) idx
    end.

  Definition show_value (v : value) : bytes :=
    match v with VStr s => s | VNum x => show_f64 x end.

  Definition evaluate_print_statement : M unit :=
    r <- repeat_m fuel (fun st : bool * bytes =>
           let '(semi, text) := st in
           t <- peek_next_token ;;
           match t with
           | None => ret (inr st)
           | Some TColon => ret (inr st)
           | Some TElse => ret (inr st)
           | Some TSemicolon => next_token ;;; ret (inl (true, text))
           | Some TComma => next_token ;;; ret (inl (false, text ++ [9]))
           | Some _ => v <- expr ;; ret (inl (false, text ++ show_value v))
           end) (false, []) ;;
    let '(semi, text) := r in
    push_output (OPrint (if semi then text else text ++ [10])).

  Definition evaluate_for_statement : M unit :=
    t <- next_token ;;
    match t with
    | Some (TSymbol sym) =>
        expect_next_token TEquals ;;;
        fv <- expr ;; from <- expect_number fv ;;
        expect_next_token TTo ;;;
        tv <- expr ;; to <- expect_number tv ;;
        st <- accept_next_token TStep ;;
        step <- (if st then (sv <- expr ;; expect_number sv) else ret f64_one) ;;
        start_loop sym from to step
    | _ => fail EUnexpectedToken
    end.

  Definition evaluate_next_statement : M unit :=
    t <- next_token ;;
    match t with
    | Some (TSymbol sym) => end_loop sym
    | _ => fail EUnexpectedToken
    end.

  Definition evaluate_def_statement : M unit :=
    t <- next_token ;;
    match t with
    | Some (TSymbol name) =>
        expect_next_token TLeftParen ;;;
        args <- repeat_m fuel (fun acc : list bytes =>
                  a <- next_token ;;
                  match a with
                  | Some (TSymbol arg) =>
                      let acc' := acc ++ [arg] in
                      d <- next_token ;;
                      match d with
                      | Some TComma => ret (inl acc')
                      | Some TRightParen => ret (inr acc')
                      | _ => fail EUnexpectedToken
                      end
                  | _ => fail EUnexpectedToken
                  end) [] ;;
        expect_next_token TEquals ;;;
        define_function name args ;;;
        repeat_m fuel (fun _ : unit =>
          t <- next_token ;;
          match t with
          | None => ret (inr tt)
          | Some TColon => ret (inr tt)
          | Some _ => ret (inl tt)
          end) tt
    | _ => fail EUnexpectedToken
    end.

  (* evaluate_statement (statement.rs:20-52) *)
  Definition evaluate_statement_body : M unit :=
    tr <- get enable_tracing ;;
    (if tr then
       l <- get_line_number ;;
       match l with Some n => push_output (OTrace n) | None => ret tt end
     else ret tt) ;;;
    t <- next_token ;;
    match t with
    | Some TStop => break_at_current_location
    | Some TDim => evaluate_dim_statement
    | Some TPrint | Some TQuestionMark => evaluate_print_statement
    | Some TInput => evaluate_input_statement
    | Some TIf => evaluate_if_statement
    | Some TGoto => evaluate_goto_statement
    | Some TGosub => evaluate_gosub_statement
    | Some TReturn => return_to_last_gosub
    | Some TEnd => program_end
    | Some TFor => evaluate_for_statement
    | Some TNext => evaluate_next_statement
    | Some TRestore => reset_data_cursor
    | Some TDef => evaluate_def_statement
    | Some TRead => evaluate_read_statement
    | Some (TRemark _) => ret tt
    | Some TColon => ret tt
    | Some (TData _) => ret tt
    | Some TLet => evaluate_let_statement
    | Some (TSymbol sym) => evaluate_assignment_statement sym
    | Some TElse =>
        b <- is_else_of_then_clause ;;
        if b then discard_remaining_tokens else fail EUnexpectedToken
    | Some _ => fail EUnexpectedToken
    | None => ret tt
    end.
End Statement.

Fixpoint evaluate_statement (fuel : nat) (n : nat) : M unit :=
  match fuel with
  | O => out_of_fuel
  | S f => if Nat.eqb n max_nesting then fail EStackOverflow
           else evaluate_statement_body f (S n) (evaluate_statement f (S n))
  end.
