(* Interp.v — the host API of interpreter.rs (start_evaluating,
   continue_evaluating, provide_input, break_at_current_location, randomize,
   take_output), error location and caret rendering (program.rs:417-435,
   622-636; interpreter_error.rs:37-62,150-213), and the canonical rendering of
   rows and snapshots that the harness prints. *)
From Coq Require Import List NArith ZArith Bool Lia.
From Abasic Require Import Model.Bytes Model.Num Model.Token Model.Data Model.Lexer Gen.Tables
     Model.State Model.Eval.
Import ListNotations.
Open Scope N_scope.

(* Fuel used for every host call: a bound on nesting depth plus loop
   iterations per level (see DESIGN 3.4). *)
Definition default_fuel : nat := N.to_nat 3000.

Definition return_to_idle_state : M unit := modify (set_state Idle).

(* run_next_statement (interpreter.rs:122-135) *)
Definition run_next_statement (fuel : nat) : M unit :=
  modify (set_state Running) ;;;
  h <- has_next_token ;;
  (if h then evaluate_statement fuel 0 else ret tt) ;;;
  h2 <- has_next_token ;;
  if h2 then ret tt
  else
    n <- next_line ;;
    if n then ret tt
    else set_and_goto_immediate_line [] ;;; return_to_idle_state.

(* ------------------------------------------------------------------ *)
(* Command recognition (interpreter.rs:141-187, 252).  The line is upper-cased
   with str::to_uppercase (Unicode) first; the only non-ASCII characters whose
   upper-casing is pure ASCII are the ten below. *)
Definition special_upper (cp : N) : option bytes :=
  if cp =? 305 then Some (bs "I")           (* U+0131 dotless i *)
  else if cp =? 383 then Some (bs "S")      (* U+017F long s *)
  else if cp =? 223 then Some (bs "SS")     (* U+00DF sharp s *)
  else if cp =? 64256 then Some (bs "FF")
  else if cp =? 64257 then Some (bs "FI")
  else if cp =? 64258 then Some (bs "FL")
  else if cp =? 64259 then Some (bs "FFI")
  else if cp =? 64260 then Some (bs "FFL")
  else if cp =? 64261 then Some (bs "ST")
  else if cp =? 64262 then Some (bs "ST")
  else None.

(* Upper-cased form of a word if it is pure ASCII after upper-casing. *)
Fixpoint upper_word (cs : list bytes) : option bytes :=
  match cs with
  | [] => Some []
  | c :: r =>
      match upper_word r with
      | None => None
      | Some w =>
          match c with
          | [b] => Some (to_upper b :: w)
          | _ => match special_upper (code_point c) with
                 | Some u => Some (u ++ w)
                 | None => None
                 end
          end
      end
  end.

Fixpoint take_word (s : bytes) : bytes :=
  match s with
  | b :: t => if is_ascii_ws b then [] else b :: take_word t
  | [] => []
  end.

(* first split_ascii_whitespace() word *)
Definition first_word (line : bytes) : bytes :=
  take_word (skipn (skip_ascii_ws line) line).

Inductive command := CRun | CList | CNew | CCont | CTrace | CNoTrace | CInternals | CStats.

Definition command_of (line : bytes) : option command :=
  match first_word line with
  | [] => None
  | w =>
      match upper_word (utf8_chars w) with
      | None => None
      | Some u =>
          if bytes_eqb u (bs "RUN") then Some CRun
          else if bytes_eqb u (bs "LIST") then Some CList
          else if bytes_eqb u (bs "NEW") then Some CNew
          else if bytes_eqb u (bs "CONT") then Some CCont
          else if bytes_eqb u (bs "TRACE") then Some CTrace
          else if bytes_eqb u (bs "NOTRACE") then Some CNoTrace
          else if bytes_eqb u (bs "INTERNALS") then Some CInternals
          else if bytes_eqb u (bs "STATS") then Some CStats
          else None
      end
  end.

(* impl Display for Token *)
Definition show_token (t : token) : bytes :=
  match t with
  | TRemark c => bs "REM" ++ c
  | TSymbol s => s
  | TString s => 34 :: s ++ [34]
  | TNumber x => show_f64 x
  | TData d => bs "DATA " ++ show_data d
  | _ => display_nullary t
  end.

Definition show_tokens (ts : list token) : bytes := join [32] (map show_token ts).

(* ProgramLines::list spells a number that directly follows a symbol with its
   leading decimal point (".5", ".0"): blanks are ignored on reload, so a digit
   after a symbol would be read back as part of its name. *)
Definition show_number_after_symbol (x : f64) : bytes :=
  match show_f64 x with
  | 48 :: 46 :: r => 46 :: r
  | [48] => [46; 48]
  | other => other
  end.

Fixpoint show_tokens_listing (prev_symbol : bool) (ts : list token) : list bytes :=
  match ts with
  | [] => []
  | t :: r =>
      (match t with
       | TNumber x => if prev_symbol then show_number_after_symbol x else show_token t
       | _ => show_token t
       end) :: show_tokens_listing (match t with TSymbol _ => true | _ => false end) r
  end.

Definition show_listing (ts : list token) : bytes := join [32] (show_tokens_listing false ts).

(* ProgramLines::list (program_lines.rs:86-100) *)
Fixpoint list_lines (keys : list N) (toks : list (N * list token)) : res (list bytes) :=
  match keys with
  | [] => Ok []
  | n :: r =>
      match toks_get n toks with
      | None => Panic PListUnwrap
      | Some ts =>
          match list_lines r toks with
          | Ok ls => Ok ((show_N n ++ [32] ++ show_listing ts ++ [10]) :: ls)
          | other => other
          end
      end
  end.

Definition process_command (fuel : nat) (c : command) : M unit :=
  match c with
  | CRun =>
      modify (set_input None) ;;;
      modify (set_variables []) ;;;
      modify (set_arrays []) ;;;
      run_from_first_numbered_line ;;;
      run_next_statement fuel
  | CList =>
      ls <- (fun s => (list_lines (st_keys s) (st_toks s), s)) ;;
      modify (fun s => set_outputs (outputs s ++ map OPrint ls) s)
  | CNew => modify (set_state NewInterpreterRequested)
  | CCont => continue_from_breakpoint ;;; run_next_statement fuel
  | CTrace => modify (fun s => set_flags (enable_warnings s) true s)
  | CNoTrace => modify (fun s => set_flags (enable_warnings s) false s)
  | CInternals => push_output (OPrint (bs "<INTERNALS>"))      (* Debug text: not modelled *)
  | CStats => push_output (OPrint (bs "<STATS>"))              (* allocator statistics: not modelled *)
  end.

(* postprocess_result (interpreter.rs:189-200) *)
Definition postprocess {A} (r : res A * interp) : res A * interp :=
  match r with
  | (Err e l, s) => (Err e (populate_error_location e l s), set_state Idle s)
  | other => other
  end.

(* evaluate_impl (interpreter.rs:248-280) *)
Definition evaluate_impl (fuel : nat) (line : bytes) : M unit :=
  st <- get state ;;
  match st with
  | Idle =>
      set_and_goto_immediate_line [] ;;;
      match command_of line with
      | Some c => process_command fuel c
      | None =>
          let '(num, skip) := match parse_line_number line with
                              | Some (n, e) => (Some n, e)
                              | None => (None, 0%nat)
                              end in
          match tokenize line skip with
          | TokErr _ e => fail (ESyntaxTok e)
          | TokOk ts =>
              let tokens := map fst ts in
              match num with
              | Some n => set_numbered_line n tokens
              | None => set_and_goto_immediate_line tokens ;;; run_next_statement fuel
              end
          end
      end
  | _ => panic PAssertState
  end.

Definition start_evaluating (fuel : nat) (line : bytes) : M unit :=
  fun s => postprocess (evaluate_impl fuel line s).

Definition continue_evaluating (fuel : nat) : M unit :=
  fun s => match state s with
           | Running => postprocess (run_next_statement fuel s)
           | _ => (Panic PAssertState, s)
           end.

Definition provide_input (text : bytes) : M unit :=
  fun s => match state s with
           | AwaitingInput => (Ok tt, set_state Running (set_input (Some text) s))
           | _ => (Panic PAssertState, s)
           end.

Definition host_break : M unit := break_at_current_location.

Definition randomize (seed : N) : M unit := modify (set_rng (rng_new seed)).

(* ------------------------------------------------------------------ *)
(* Error text *)

Definition debug_error (e : ierror) : bytes :=
  match e with
  | ESyntaxTok t => bs "Syntax(Tokenization(" ++ debug_tok_error t ++ bs "))"
  | EUnexpectedToken => bs "Syntax(UnexpectedToken)"
  | EExpectedToken t => bs "Syntax(ExpectedToken(" ++ token_name t ++ bs "))"
  | EUnexpectedEnd => bs "Syntax(UnexpectedEndOfInput)"
  | ETypeMismatch => bs "TypeMismatch"
  | EDataTypeMismatch => bs "DataTypeMismatch"
  | EUndefinedStatement => bs "UndefinedStatement"
  | EStackOverflow => bs "OutOfMemory(StackOverflow)"
  | EArrayTooLarge => bs "OutOfMemory(ArrayTooLarge)"
  | EOutOfData => bs "OutOfData"
  | EReturnWithoutGosub => bs "ReturnWithoutGosub"
  | ENextWithoutFor => bs "NextWithoutFor"
  | EBadSubscript => bs "BadSubscript"
  | EIllegalQuantity => bs "IllegalQuantity"
  | EUnimplemented => bs "Unimplemented"
  | EDivisionByZero => bs "DivisionByZero"
  | ERedimensionedArray => bs "RedimensionedArray"
  | ECannotContinue => bs "CannotContinue"
  | EIllegalDirect => bs "IllegalDirect"
  end.

(* impl Display for TracedInterpreterError (without backtrace) *)
Definition display_error_kind (e : ierror) : bytes :=
  match e with
  | ESyntaxTok (IllegalCharacter _) => bs "SYNTAX ERROR (ILLEGAL CHARACTER)"
  | ESyntaxTok (UnterminatedStringLiteral _) => bs "SYNTAX ERROR (UNTERMINATED STRING)"
  | ESyntaxTok (InvalidNumber _ _) => bs "SYNTAX ERROR (INVALID NUMBER)"
  | EUnexpectedToken => bs "SYNTAX ERROR (UNEXPECTED TOKEN)"
  | EExpectedToken t => bs "SYNTAX ERROR (EXPECTED TOKEN '" ++ show_token t ++ bs "')"
  | EUnexpectedEnd => bs "SYNTAX ERROR (UNEXPECTED END OF INPUT)"
  | ETypeMismatch => bs "TYPE MISMATCH"
  | EDataTypeMismatch => bs "DATA TYPE MISMATCH"
  | EUndefinedStatement => bs "UNDEF'D STATEMENT ERROR"
  | EStackOverflow => bs "OUT OF MEMORY ERROR (STACK OVERFLOW)"
  | EArrayTooLarge => bs "OUT OF MEMORY ERROR (ARRAY TOO LARGE)"
  | EOutOfData => bs "OUT OF DATA ERROR"
  | EReturnWithoutGosub => bs "RETURN WITHOUT GOSUB ERROR"
  | ENextWithoutFor => bs "NEXT WITHOUT FOR ERROR"
  | EBadSubscript => bs "BAD SUBSCRIPT ERROR"
  | EIllegalQuantity => bs "ILLEGAL QUANTITY ERROR"
  | EUnimplemented => bs "UNIMPLEMENTED ERROR"
  | EDivisionByZero => bs "DIVISION BY ZERO ERROR"
  | ERedimensionedArray => bs "REDIM'D ARRAY ERROR"
  | ECannotContinue => bs "CAN'T CONTINUE ERROR"
  | EIllegalDirect => bs "ILLEGAL DIRECT ERROR"
  end.

Definition display_error (e : ierror) (l : option location) : bytes :=
  display_error_kind e ++
  match l with
  | Some (mkloc (Some n) _) => bs " IN " ++ show_N n
  | _ => []
  end.

(* Program::get_line_with_pointer_caret (program.rs:417-435) *)
Fixpoint caret_spaces (ts : list token) (i : nat) : nat :=
  match ts, i with
  | t :: r, S i' => (length (show_token t) + 1 + caret_spaces r i')%nat
  | _, _ => 0%nat
  end.

Definition program_caret (l : location) (s : interp) : res (list bytes) :=
  match fst (tokens_for_line (loc_line l) s) with
  | Ok [] => Ok []
  | Ok ts => Ok [show_tokens ts; repeat 32 (caret_spaces ts (loc_idx l)) ++ [94]]
  | Panic p => Panic p
  | _ => Panic PUnwrapLine
  end.

(* TracedInterpreterError::get_line_with_pointer_caret (interpreter_error.rs:37-62) *)
Definition render_caret (e : ierror) (l : option location) (line : option bytes) (s : interp)
  : res (list bytes) :=
  let from_line :=
    match line, e with
    | Some text, ESyntaxTok t =>
        let '(a, b) := error_range t (length text) in
        Ok [text; repeat 32 a ++ repeat 94 (b - a)%nat]
    | _, _ => Ok []
    end in
  match l with
  | Some l =>
      match program_caret l s with
      | Ok [] => from_line
      | other => other
      end
  | None => from_line
  end.

(* ------------------------------------------------------------------ *)
(* Canonical text (must equal what the hooks print) *)

Definition show_location (l : location) : bytes :=
  (match loc_line l with None => bs "imm" | Some n => show_N n end) ++ [46] ++ show_nat (loc_idx l).

Definition show_opt_line (l : option N) : bytes :=
  match l with None => bs "none" | Some n => show_N n end.

Definition canon_value (v : value) : bytes :=
  match v with
  | VStr s => 83 :: esc s
  | VNum x => 78 :: show_bits x
  end.

(* insertion sort of byte strings by lexicographic byte order (Vec<String>::sort) *)
Fixpoint insert_sorted (x : bytes) (l : list bytes) : list bytes :=
  match l with
  | [] => [x]
  | y :: r => match bytes_compare x y with
              | Gt => y :: insert_sorted x r
              | _ => x :: l
              end
  end.
Definition sort_bytes (l : list bytes) : list bytes := fold_right insert_sorted [] l.

Definition canon_vars (vs : list (bytes * value)) : bytes :=
  join [44] (sort_bytes (map (fun kv => esc (fst kv) ++ [61] ++ canon_value (snd kv)) vs)).

Definition is_default_cell (v : value) : bool :=
  match v with
  | VStr [] => true
  | VStr _ => false
  | VNum x => Z.eqb (f64_bits x) 0
  end.

Fixpoint canon_cells (cells : list value) (i : nat) : list bytes :=
  match cells with
  | [] => []
  | v :: r => if is_default_cell v then canon_cells r (S i)
              else (show_nat i ++ [61] ++ canon_value v) :: canon_cells r (S i)
  end.

Definition canon_array (kv : bytes * arr) : bytes :=
  let '(name, a) := kv in
  (if ar_str a then [83] else [78]) ++ esc name ++ [91] ++ join [46] (map show_N (ar_dims a)) ++ [93]
  ++ [35] ++ show_nat (length (ar_cells a)) ++ [123] ++ join [44] (canon_cells (ar_cells a) 0) ++ [125].

Definition canon_arrays (l : list (bytes * arr)) : bytes := join [59] (sort_bytes (map canon_array l)).

Definition canon_frame (f : frame) : bytes :=
  show_location (fr_ret f) ++ [123] ++ canon_vars (fr_vars f) ++ [125].

Definition canon_loop (l : loop_info) : bytes :=
  esc (lp_sym l) ++ [64] ++ show_location (lp_loc l) ++ [64] ++ show_bits (lp_to l) ++ [64] ++ show_bits (lp_step l).

Definition canon_data_it (d : option data_iter) : bytes :=
  match d with
  | None => bs "none"
  | Some d =>
      show_nat (di_ci d) ++ [46] ++ show_nat (di_ii d) ++ [47]
      ++ join [44] (map (fun c => show_location (fst c) ++ [35] ++ show_nat (length (snd c))) (di_chunks d))
  end.

Definition canon_fn (kv : bytes * fn_def) : bytes :=
  let '(name, d) := kv in
  esc name ++ [91] ++ join [44] (map esc (fn_args d)) ++ [93] ++ [64]
  ++ show_location (mkloc (Some (fn_line d)) (fn_idx d)).

Fixpoint insert_N (x : N) (l : list N) : list N :=
  match l with [] => [x] | y :: r => if x <=? y then x :: l else y :: insert_N x r end.
Definition sort_N (l : list N) : list N := fold_right insert_N [] l.

Definition show_state (st : istate) : bytes :=
  bs match st with
     | Idle => "Idle" | Running => "Running" | AwaitingInput => "AwaitingInput"
     | NewInterpreterRequested => "NewInterpreterRequested"
     end%string.

Definition canon_snapshot (s : interp) : bytes :=
  bs "state=" ++ show_state (state s)
  ++ bs "|lines=" ++ join [44] (map show_N (st_keys s)) ++ [47] ++ join [44] (map show_N (sort_N (map fst (st_toks s))))
  ++ bs "|imm=" ++ join [59] (map canon_token (immediate s))
  ++ bs "|loc=" ++ show_location (loc s)
  ++ bs "|bp=" ++ (match breakpoint s with None => bs "none" | Some p => show_location (loc_of_numbered p) end)
  ++ bs "|stack=" ++ join [59] (map canon_frame (stack s))
  ++ bs "|loops=" ++ join [59] (map canon_loop (loops s))
  ++ bs "|data=" ++ canon_data_it (data_it s)
  ++ bs "|fns=" ++ join [59] (sort_bytes (map canon_fn (functions s)))
  ++ bs "|vars=" ++ canon_vars (variables s)
  ++ bs "|arrays=" ++ canon_arrays (arrays s)
  ++ bs "|rng=" ++ show_N (rng s)
  ++ bs "|input=" ++ (match input s with None => bs "none" | Some t => 83 :: esc t end)
  ++ bs "|flags=" ++ (if enable_warnings s then [119] else [45]) ++ (if enable_tracing s then [116] else [45]).

Definition canon_output (o : output) : bytes :=
  match o with
  | OPrint t => 80 :: esc t
  | OBreak l => 66 :: show_opt_line l
  | OWarning m l => 87 :: show_opt_line l ++ [58] ++ esc m
  | OTrace n => 84 :: show_N n
  | OExtraIgnored => [88]
  | OReenter => [82]
  end.

(* impl Display for InterpreterOutput *)
Definition display_output (o : output) : bytes :=
  let in_line l := match l with Some n => bs " IN " ++ show_N n | None => [] end in
  match o with
  | OPrint t => t
  | OBreak l => bs "BREAK" ++ in_line l
  | OWarning m l => bs "WARNING" ++ in_line l ++ bs ": " ++ m
  | OTrace n => 35 :: show_N n
  | OExtraIgnored => bs "EXTRA IGNORED"
  | OReenter => bs "REENTER"
  end.

Definition show_panic (p : panic_tag) : bytes :=
  bs match p with
     | PUnwrapLine => "PUnwrapLine" | PRewind => "PRewind" | PAssertState => "PAssertState"
     | PFunctionMustExist => "PFunctionMustExist" | PStackEmpty => "PStackEmpty"
     | PListUnwrap => "PListUnwrap" | PArrayUnwrap => "PArrayUnwrap" | PCellIndex => "PCellIndex"
     | PArityZero => "PArityZero"
     end%string.

(* ------------------------------------------------------------------ *)
(* Host operations and rows *)

Inductive hostop :=
| HLine (text : bytes)
| HCont
| HReply (text : bytes)
| HBreak
| HRand (seed : N)
| HReplace
| HFlags (w t : bool)
| HNew.

(* A row: the TAB-separated fields the harness prints for one operation:
   outcome, state, outputs, caret, message, reads, snapshot. *)
Record row := mkrow {
  r_outcome : bytes; r_state : bytes; r_outputs : bytes; r_caret : bytes;
  r_msg : bytes; r_reads : bytes; r_snap : bytes }.

Definition legal (s : interp) (op : hostop) : bool :=
  match op, state s with
  | HLine _, Idle => true
  | HCont, Running => true
  | HReply _, AwaitingInput => true
  | HBreak, Running => true
  | HBreak, AwaitingInput => true
  | HRand _, _ => true
  | HReplace, NewInterpreterRequested => true
  | HFlags _ _, _ => true
  | HNew, _ => true
  | _, _ => false
  end.

Definition take_outputs (s : interp) : list output * interp := (outputs s, set_outputs [] s).

Definition make_row (r : res unit) (line : option bytes) (s : interp) : row * interp :=
  let '(outs, s1) := take_outputs s in
  let outcome :=
    match r with
    | Ok _ => bs "ok"
    | Err e l => bs "err:" ++ debug_error e ++ [64] ++ (match l with None => bs "none" | Some l => show_location l end)
    | Panic p => bs "panic:" ++ show_panic p
    | OutOfFuel => bs "MODEL-OUT-OF-FUEL"
    | OracleMiss => bs "MODEL-ORACLE-MISS"
    end in
  let caret :=
    match r with
    | Err e l => match render_caret e l line s1 with
                 | Ok ls => join [59] (map esc ls)
                 | _ => bs "PANIC"
                 end
    | _ => []
    end in
  let msg := match r with Err e l => esc (display_error e l) | _ => [] end in
  (mkrow outcome (show_state (state s1)) (join [59] (map canon_output outs)) caret msg
         (show_nat (reads s1)) (canon_snapshot s1),
   s1).

Definition fresh (oracle : list (Z * Z * Z)) : interp := set_oracle oracle init_interp.

(* One host operation.  [None] = the operation is not legal in this state
   (the harness answers "illegal" without calling the implementation). *)
Definition step (fuel : nat) (s : interp) (op : hostop) : option row * interp :=
  if negb (legal s op) then (None, s)
  else
    let s0 := set_reads 0 s in
    match op with
    | HLine text => let '(r, s1) := start_evaluating fuel text s0 in
                    let '(rw, s2) := make_row r (Some text) s1 in (Some rw, s2)
    | HCont => let '(r, s1) := continue_evaluating fuel s0 in
               let '(rw, s2) := make_row r None s1 in (Some rw, s2)
    | HReply text => let '(r, s1) := provide_input text s0 in
                     let '(rw, s2) := make_row r None s1 in (Some rw, s2)
    | HBreak => let '(r, s1) := host_break s0 in
                let '(rw, s2) := make_row r None s1 in (Some rw, s2)
    | HRand seed => let '(r, s1) := randomize seed s0 in
                    let '(rw, s2) := make_row r None s1 in (Some rw, s2)
    | HReplace => let '(rw, s2) := make_row (Ok tt) None (fresh (pow_oracle s)) in (Some rw, s2)
    | HFlags w t => (None, set_flags w t s)
    | HNew => (None, fresh (pow_oracle s))
    end.

Fixpoint run_ops (fuel : nat) (s : interp) (ops : list hostop) : list (option row) :=
  match ops with
  | [] => []
  | op :: r => let '(rw, s') := step fuel s op in rw :: run_ops fuel s' r
  end.
