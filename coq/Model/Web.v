(* Model/Web.v — the Web adapter (abasic-web/src/lib.rs: JsInterpreter) and the
   page's script (abasic-web/ts/main.ts: class Interpreter and the two DOM
   event handlers), as far as they decide WHICH adapter call is made WHEN.
   The adapter's asserts, the `panic!` arm of get_state and every core panic
   are [JTrap]; a JavaScript `throw` of the page script is [PThrow].
   The call skeleton of the page script is regenerated from main.ts into
   Gen/Tables.v (page_skeleton, page_handlers); Proofs/WebProofs.v checks this
   transliteration against it. *)
From Coq Require Import List NArith ZArith Bool.
From Abasic Require Import Model.Bytes Model.Num Model.Token Model.Data Model.Lexer Gen.Tables
     Model.State Model.Eval Model.Interp Model.Analyzer.
Import ListNotations.
Local Open Scope nat_scope.

Record js := mkjs { core : interp; latest_error : option bytes }.

Definition js_new (oracle : list (Z * Z * Z)) : js := mkjs (fresh oracle) None.

(* [JStuck]: the core model ran out of fuel / missed a pow oracle entry (model
   artefacts, never produced by the implementation) *)
Inductive jres (A : Type) := JOk (a : A) (j : js) | JTrap | JStuck.
Arguments JOk {A}. Arguments JTrap {A}. Arguments JStuck {A}.

(* maybe_replace_interpreter *)
Definition maybe_replace (s : interp) : interp :=
  match state s with NewInterpreterRequested => fresh (pow_oracle s) | _ => s end.

Definition nl : N := 10%N.

(* start_evaluating: error text, the source line and the caret *)
Definition js_start_evaluating (fuel : nat) (line : bytes) (j : js) : jres unit :=
  match latest_error j with
  | Some _ => JTrap                                         (* assert!(self.latest_error.is_none()) *)
  | None =>
      match start_evaluating fuel line (core j) with
      | (Ok _, s) => JOk tt (mkjs (maybe_replace s) None)
      | (Err e l, s) =>
          match render_caret e l (Some line) s with
          | Ok ls => JOk tt (mkjs s (Some (join [nl] (display_error e l :: ls))))
          | _ => JTrap
          end
      | (Panic _, s) => JTrap                                (* core assert / panic *)
      | (_, s) => JStuck
      end
  end.

(* continue_evaluating: error text, the program line and the caret *)
Definition js_continue_evaluating (fuel : nat) (j : js) : jres unit :=
  match latest_error j with
  | Some _ => JTrap
  | None =>
      match continue_evaluating fuel (core j) with
      | (Ok _, s) => JOk tt (mkjs (maybe_replace s) None)
      | (Err e l, s) =>
          match render_caret e l None s with
          | Ok ls => JOk tt (mkjs s (Some (join [nl] (display_error e l :: ls))))
          | _ => JTrap
          end
      | (Panic _, s) => JTrap
      | (_, s) => JStuck
      end
  end.

Definition js_provide_input (text : bytes) (j : js) : jres unit :=
  match provide_input text (core j) with
  | (Ok _, s) => JOk tt (mkjs s (latest_error j))
  | _ => JTrap
  end.

Definition js_break (j : js) : jres unit :=
  match host_break (core j) with
  | (Ok _, s) => JOk tt (mkjs s (latest_error j))
  | _ => JTrap
  end.

Inductive jstate := JIdle | JRunning | JAwaitingInput | JErrored.

Definition js_get_state (j : js) : jres jstate :=
  match latest_error j with
  | Some _ => JOk JErrored j
  | None =>
      match state (core j) with
      | Idle => JOk JIdle j
      | Running => JOk JRunning j
      | AwaitingInput => JOk JAwaitingInput j
      | NewInterpreterRequested => JTrap                     (* panic!("... never be in this state") *)
      end
  end.

(* take_latest_output: type and text (Display) of every record *)
Definition out_type (o : output) : bytes :=
  match o with
  | OPrint _ => bs "Print" | OBreak _ => bs "Break" | OWarning _ _ => bs "Warning"
  | OTrace _ => bs "Trace" | OExtraIgnored => bs "ExtraIgnored" | OReenter => bs "Reenter"
  end.

Definition js_take_output (j : js) : list (bytes * bytes) * js :=
  (map (fun o => (out_type o, display_output o)) (outputs (core j)),
   mkjs (set_outputs [] (core j)) (latest_error j)).

Definition js_take_error (j : js) : option bytes * js := (latest_error j, mkjs (core j) None).

(* ------------------------------------------------------------------ *)
(* the page *)

Record page := mkpage {
  impl : js; fully_interactive : bool; input_enabled : bool; pending_ticks : nat; started : bool }.

Definition page_new (oracle : list (Z * Z * Z)) : page := mkpage (js_new oracle) true true 0 false.

Inductive event := EvLoad (text : bytes) | EvStart | EvSubmit (text : bytes) | EvBreakKey | EvTick.

Inductive pres := POk (p : page) (log : list bytes) | PThrow (log : list bytes) | PTrap (log : list bytes)
                | PStuck.

Definition state_name (s : jstate) : bytes :=
  bs match s with JIdle => "Idle" | JRunning => "Running" | JAwaitingInput => "AwaitingInput" | JErrored => "Errored" end.

Definition log_out (outs : list (bytes * bytes)) : bytes :=
  bs "out=[" ++ join [44%N] (map (fun o => fst o ++ [58%N] ++ esc (snd o)) outs) ++ bs "]".

(* handleCurrentState; the Errored arm calls itself once more (the error was
   just taken, so the state is no longer Errored): [k] bounds that recursion *)
Fixpoint handle_current_state (fuel : nat) (k : nat) (p : page) (log : list bytes) : pres :=
  match k with
  | O => PThrow log
  | S k' =>
      let '(outs, j1) := js_take_output (impl p) in               (* showOutput *)
      let log := log ++ [log_out outs] in
      match js_get_state j1 with
      | JTrap => PTrap log
      | JStuck => PStuck
      | JOk st j2 =>
          let log := log ++ [bs "state=" ++ state_name st] in
          let p2 := mkpage j2 (fully_interactive p) (input_enabled p) (pending_ticks p) (started p) in
          match st with
          | JIdle =>
              if negb (fully_interactive p)
              then POk (mkpage j2 (fully_interactive p) false (pending_ticks p) (started p)) (log ++ [bs "input-disabled"])
              else POk p2 (log ++ [bs "prompt ]"])
          | JAwaitingInput => POk p2 (log ++ [bs "prompt ?"])
          | JErrored =>
              let '(err, j3) := js_take_error j2 in
              match err with
              | None => PThrow log
              | Some e =>
                  handle_current_state fuel k'
                    (mkpage j3 (fully_interactive p) (input_enabled p) (pending_ticks p) (started p))
                    (log ++ [bs "error " ++ esc e])
              end
          | JRunning =>
              let log := log ++ [bs "continue_evaluating"] in
              match js_continue_evaluating fuel j2 with
              | JTrap => PTrap log
              | JStuck => PStuck
              | JOk _ j3 =>
                  POk (mkpage j3 (fully_interactive p) (input_enabled p) (S (pending_ticks p)) (started p)) log
              end
          end
      end
  end.

Definition hcs (fuel : nat) (p : page) (log : list bytes) : pres := handle_current_state fuel 3 p log.

(* JavaScript String.prototype.trim yields "" *)
Definition js_ws (cp : N) : bool :=
  ((9 <=? cp) && (cp <=? 13))%N || (cp =? 32)%N || (cp =? 160)%N || (cp =? 5760)%N
  || ((8192 <=? cp) && (cp <=? 8202))%N || (cp =? 8232)%N || (cp =? 8233)%N || (cp =? 8239)%N
  || (cp =? 8287)%N || (cp =? 12288)%N || (cp =? 65279)%N.
Definition js_blank (line : bytes) : bool := forallb (fun c => js_ws (code_point c)) (utf8_chars line).
Definition starts_with_digit (line : bytes) : bool :=
  match line with b :: _ => is_digit b | [] => false end.

(* loadAndRunSourceCode: every numbered line is submitted; the loader stops at
   the first line the interpreter rejects (the error is shown by start()) *)
Fixpoint load_lines (fuel : nat) (lines : list bytes) (j : js) (log : list bytes) : jres unit * list bytes * bool :=
  match lines with
  | [] => (JOk tt j, log, true)
  | l :: r =>
      if js_blank l || negb (starts_with_digit l) then load_lines fuel r j log
      else
        let log := log ++ [bs "start_evaluating " ++ esc l] in
        match js_start_evaluating fuel l j with
        | JTrap => (JTrap, log, false)
        | JStuck => (JStuck, log, false)
        | JOk _ j1 =>
            match js_get_state j1 with
            | JTrap => (JTrap, log, false)
            | JStuck => (JStuck, log, false)
            | JOk JErrored j2 => (JOk tt j2, log ++ [bs "state=Errored"], false)
            | JOk st j2 => load_lines fuel r j2 (log ++ [bs "state=" ++ state_name st])
            end
        end
  end.

Definition break_alias : bytes := [240; 159; 146; 165]%N.

Definition do_break (fuel : nat) (p : page) (log : list bytes) : pres :=
  match js_get_state (impl p) with
  | JTrap => PTrap log
  | JStuck => PStuck
  | JOk st j1 =>
      let log := log ++ [bs "state=" ++ state_name st] in
      match st with
      | JAwaitingInput | JRunning =>
          let log := log ++ [bs "break_at_current_location"] in
          match js_break j1 with
          | JTrap => PTrap log
          | JStuck => PStuck
          | JOk _ j2 => hcs fuel (mkpage j2 true (input_enabled p) (pending_ticks p) (started p)) log
          end
      | _ => POk (mkpage j1 (fully_interactive p) (input_enabled p) (pending_ticks p) (started p)) log
      end
  end.

Definition page_step (fuel : nat) (p : page) (ev : event) : pres :=
  match ev with
  | EvLoad text =>
      if started p then PThrow []
      else
        match load_lines fuel (split_lines text) (impl p) [] with
        | (JTrap, log, _) => PTrap log
        | (JStuck, _, _) => PStuck
        | (JOk _ j, log, false) => POk (mkpage j false (input_enabled p) (pending_ticks p) (started p)) log
        | (JOk _ j, log, true) =>
            let log := log ++ [bs "start_evaluating RUN"] in
            match js_start_evaluating fuel (bs "RUN") j with
            | JTrap => PTrap log
            | JStuck => PStuck
            | JOk _ j1 => POk (mkpage j1 false (input_enabled p) (pending_ticks p) (started p)) log
            end
        end
  | EvStart => hcs fuel (mkpage (impl p) (fully_interactive p) (input_enabled p) (pending_ticks p) true) []
  | EvSubmit text =>
      if negb (input_enabled p) || negb (started p) then POk p [bs "ignored"]
      else
        (* canBreak() && input === alias *)
        match js_get_state (impl p) with
        | JTrap => PTrap []
        | JStuck => PStuck
        | JOk st j1 =>
            let log := [bs "state=" ++ state_name st] in
            let p1 := mkpage j1 (fully_interactive p) (input_enabled p) (pending_ticks p) (started p) in
            if (match st with JIdle => false | _ => true end) && bytes_eqb text break_alias
            then do_break fuel p1 log
            else
              (* canProcessUserInput(), then submitUserInput's own get_state *)
              let log := log ++ [bs "state=" ++ state_name st] in
              match st with
              | JIdle =>
                  let log := log ++ [bs "state=" ++ state_name st; bs "start_evaluating " ++ esc text] in
                  match js_start_evaluating fuel text j1 with
                  | JTrap => PTrap log
                  | JStuck => PStuck
                  | JOk _ j2 => hcs fuel (mkpage j2 (fully_interactive p) (input_enabled p) (pending_ticks p) (started p)) log
                  end
              | JAwaitingInput =>
                  let log := log ++ [bs "state=" ++ state_name st; bs "provide_input " ++ esc text] in
                  match js_provide_input text j1 with
                  | JTrap => PTrap log
                  | JStuck => PStuck
                  | JOk _ j2 => hcs fuel (mkpage j2 (fully_interactive p) (input_enabled p) (pending_ticks p) (started p)) log
                  end
              | _ => POk p1 (log ++ [bs "ignored"])
              end
        end
  | EvBreakKey =>
      if negb (input_enabled p) || negb (started p) then POk p [bs "ignored"]
      else do_break fuel p []
  | EvTick =>
      match pending_ticks p with
      | O => POk p [bs "ignored"]
      | S n => hcs fuel (mkpage (impl p) (fully_interactive p) (input_enabled p) n (started p)) []
      end
  end.
