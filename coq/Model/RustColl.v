(* Model/RustColl.v — the meaning of the collection calls that the translator
   finds in program_lines.rs (Gen/ProgramLinesRs.v): `sorted_line_numbers :
   BTreeSet<u64>` is an ascending list of keys, `numbered_lines : HashMap<u64,
   Vec<Token>>` an association list; insert / remove / get are the model's
   own list operations (Proofs/StoreProofs.v proves that they behave as a set
   and a map), `range((Excluded(n), Unbounded))` is the sub-sequence of keys
   above n, `.next()` its first element, `.copied()` the identity. *)
From Coq Require Import List NArith Bool.
From Abasic Require Import Model.Bytes Model.Num Model.Token Model.Data Model.Lexer Gen.Tables Model.State.
Import ListNotations.
Open Scope N_scope.

Inductive rs_bound : Type := BExcluded (n : N) | BIncluded (n : N) | BUnbounded.

Definition above (b : rs_bound) (k : N) : bool :=
  match b with BExcluded n => n <? k | BIncluded n => n <=? k | BUnbounded => true end.
Definition below (b : rs_bound) (k : N) : bool :=
  match b with BExcluded n => k <? n | BIncluded n => k <=? n | BUnbounded => true end.

Definition btree_first (keys : list N) : option N := hd_error keys.
Definition btree_range (lo hi : rs_bound) (keys : list N) : list N :=
  filter (fun k => above lo k && below hi k) keys.
Definition iter_next {A} (it : list A) : option A := hd_error it.
Definition copied {A} (x : A) : A := x.
Definition btree_insert (n : N) (keys : list N) : list N := keys_insert n keys.
Definition btree_remove (n : N) (keys : list N) : list N := keys_remove n keys.

Definition hashmap_contains_key (n : N) (m : list (N * list token)) : bool :=
  match toks_get n m with Some _ => true | None => false end.
Definition hashmap_get (n : N) (m : list (N * list token)) : option (list token) := toks_get n m.
Definition hashmap_insert (n : N) (v : list token) (m : list (N * list token)) := toks_set n v m.
Definition hashmap_remove (n : N) (m : list (N * list token)) := toks_remove n m.
Definition vec_is_empty {A} (v : list A) : bool := match v with [] => true | _ => false end.
