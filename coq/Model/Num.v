(** * Abasic.Model.Num — executable, axiom-free model of Rust's [f64]

    IEEE-754 binary64 arithmetic as exposed by the Rust language, modelled on
    the standard library's [spec_float] (no primitive floats, no Flocq, no
    axioms).  Everything here computes under [vm_compute].

    - arithmetic: [SFadd]/[SFsub]/[SFmul]/[SFdiv] at [prec = 53], [emax = 1024]
      (round-to-nearest-even); NaN payloads and NaN signs are not modelled.
    - [parse_f64] : Rust [str::parse::<f64>()] (core::num::dec2flt): same
      grammar, correctly rounded result.
    - [show_f64]  : Rust [format!("{}", x)] (core::fmt::float / flt2dec):
      shortest round-tripping digits (Steele-White / Dragon4 as implemented in
      core::num::flt2dec::strategy::dragon::format_shortest), positional
      notation, never an exponent.

    Bytes are [N] values (< 256); text is [list N].

    All functions on [f64] assume their finite arguments are canonical
    ([valid_binary prec emax x = true]); every function here returns canonical
    values when given canonical values. *)

From Coq Require Import ZArith NArith List Bool Floats.SpecFloat.
From Coq Require Strings.String Strings.Ascii. (* regression examples only *)
Import ListNotations.

Local Open Scope Z_scope.

Definition f64 := spec_float.
Definition prec := 53%Z.
Definition emax := 1024%Z.

(* ------------------------------------------------------------------ *)
(** ** Constants *)

Definition f64_zero : f64 := S754_zero false.
Definition f64_one : f64 := S754_finite false 4503599627370496 (-52).
Definition f64_nan : f64 := S754_nan.
Definition f64_inf (neg : bool) : f64 := S754_infinity neg.

(* ------------------------------------------------------------------ *)
(** ** Arithmetic and comparisons *)

Definition f64_add (x y : f64) : f64 := SFadd prec emax x y.
Definition f64_sub (x y : f64) : f64 := SFsub prec emax x y.
Definition f64_mul (x y : f64) : f64 := SFmul prec emax x y.
Definition f64_div (x y : f64) : f64 := SFdiv prec emax x y.

(** Rust unary minus: flips the sign, including that of zero. *)
Definition f64_neg (x : f64) : f64 := SFopp x.
Definition f64_abs (x : f64) : f64 := SFabs x.

Definition f64_eqb (x y : f64) : bool := SFeqb x y.
Definition f64_ltb (x y : f64) : bool := SFltb x y.
Definition f64_leb (x y : f64) : bool := SFleb x y.

Definition f64_is_nan (x : f64) : bool :=
  match x with S754_nan => true | _ => false end.

(** Structural identity ("same bits" once NaNs are identified). *)
Definition f64_same (x y : f64) : bool :=
  match x, y with
  | S754_zero a, S754_zero b => Bool.eqb a b
  | S754_infinity a, S754_infinity b => Bool.eqb a b
  | S754_nan, S754_nan => true
  | S754_finite a m e, S754_finite b n f =>
      Bool.eqb a b && Pos.eqb m n && Z.eqb e f
  | _, _ => false
  end.

(** Rust [f64::floor]. *)
Definition f64_floor (x : f64) : f64 :=
  match x with
  | S754_finite s m e =>
      if 0 <=? e then x
      else
        let sh := - e in
        let q := Z.shiftr (Zpos m) sh in
        let exact := Z.shiftl q sh =? Zpos m in
        let mag := if s then (if exact then q else q + 1) else q in
        match mag with
        | Zpos p => binary_round prec emax s p 0
        | _ => S754_zero s
        end
  | _ => x
  end.

(** Exact integer to nearest-even binary64 (Rust [u64 as f64], [i64 as f64]). *)
Definition f64_of_Z (z : Z) : f64 := binary_normalize prec emax z 0 false.

Module NumImpl.

  Definition two52 : Z := 4503599627370496.
  Definition two63 : Z := 9223372036854775808.
  Definition two64 : Z := 18446744073709551616.

  (** Truncation toward zero of a finite float, as a signed integer.  Values
      with a huge exponent are replaced by [±2^65] (enough for saturation). *)
  Definition trunc_Z (s : bool) (m : positive) (e : Z) : Z :=
    let mag :=
      if 0 <=? e then (if 64 <? e then Z.shiftl 1 65 else Z.shiftl (Zpos m) e)
      else Z.shiftr (Zpos m) (- e) in
    if s then - mag else mag.

  Definition clamp (lo hi z : Z) : Z :=
    if z <? lo then lo else if hi <? z then hi else z.

End NumImpl.

(** Rust [x as i64]. *)
Definition f64_to_i64_sat (x : f64) : Z :=
  match x with
  | S754_zero _ => 0
  | S754_nan => 0
  | S754_infinity s => if s then - NumImpl.two63 else NumImpl.two63 - 1
  | S754_finite s m e =>
      NumImpl.clamp (- NumImpl.two63) (NumImpl.two63 - 1) (NumImpl.trunc_Z s m e)
  end.

(** Rust [x as u64]. *)
Definition f64_to_u64_sat (x : f64) : Z :=
  match x with
  | S754_zero _ => 0
  | S754_nan => 0
  | S754_infinity s => if s then 0 else NumImpl.two64 - 1
  | S754_finite s m e =>
      NumImpl.clamp 0 (NumImpl.two64 - 1) (NumImpl.trunc_Z s m e)
  end.

(* ------------------------------------------------------------------ *)
(** ** Bit patterns *)

(** IEEE bit pattern, [0 <= z < 2^64]; NaN is the canonical quiet NaN. *)
Definition f64_bits (x : f64) : Z :=
  match x with
  | S754_zero s => if s then NumImpl.two63 else 0
  | S754_infinity s =>
      (if s then NumImpl.two63 else 0) + 9218868437227405312 (* 0x7FF0... *)
  | S754_nan => 9221120237041090560 (* 0x7FF8000000000000 *)
  | S754_finite s m e =>
      (if s then NumImpl.two63 else 0) +
      (if NumImpl.two52 <=? Zpos m
       then (e + 1075) * NumImpl.two52 + (Zpos m - NumImpl.two52)
       else Zpos m)
  end.

Definition f64_of_bits (z : Z) : f64 :=
  let z := z mod NumImpl.two64 in
  let s := NumImpl.two63 <=? z in
  let be := (z / NumImpl.two52) mod 2048 in
  let mant := z mod NumImpl.two52 in
  if be =? 0 then
    match mant with
    | Zpos p => S754_finite s p (-1074)
    | _ => S754_zero s
    end
  else if be =? 2047 then
    (if mant =? 0 then S754_infinity s else S754_nan)
  else
    S754_finite s (Z.to_pos (mant + NumImpl.two52)) (be - 1075).

(* ------------------------------------------------------------------ *)
(** ** Decimal to binary: [parse_f64] *)

Module NumParse.

  Definition is_digit (c : N) : bool := ((48 <=? c) && (c <=? 57))%N.

  (** Split off the longest prefix of ASCII digits (kept as bytes). *)
  Fixpoint span_digits (s : list N) : list N * list N :=
    match s with
    | c :: t =>
        if is_digit c then let '(d, r) := span_digits t in (c :: d, r)
        else ([], s)
    | [] => ([], [])
    end.

  Fixpoint drop_zeros (s : list N) : list N :=
    match s with
    | c :: t => if (c =? 48)%N then drop_zeros t else s
    | [] => []
    end.

  Fixpoint len_Z (s : list N) (acc : Z) : Z :=
    match s with
    | _ :: t => len_Z t (acc + 1)
    | [] => acc
    end.

  (** Rust's [parse_scientific]: the exponent saturates once it is >= 0x10000
      (further digits are consumed but ignored). *)
  Fixpoint exp_digits (s : list N) (acc : Z) : Z :=
    match s with
    | c :: t =>
        exp_digits t (if acc <? 65536 then 10 * acc + (Z.of_N c - 48) else acc)
    | [] => acc
    end.

  (** After the [e]/[E]: optional sign, at least one digit, nothing else. *)
  Definition parse_exponent (s : list N) : option Z :=
    let '(neg, s) :=
      match s with
      | c :: t =>
          if (c =? 45)%N then (true, t)
          else if (c =? 43)%N then (false, t) else (false, s)
      | [] => (false, s)
      end in
    let '(d, r) := span_digits s in
    match d, r with
    | _ :: _, [] => let e := exp_digits d 0 in Some (if neg then - e else e)
    | _, _ => None
    end.

  (** Maximal number of significant decimal digits kept verbatim; anything
      beyond only contributes a sticky digit.  (Every rounding breakpoint of
      binary64 has fewer than 768 significant digits.) *)
  Definition max_sig_digits : Z := 800.

  (** Accumulate significant digits (leading zeros already stripped):
      returns (mantissa, #digits kept, #digits dropped, sticky). *)
  Fixpoint accum_digits (s : list N) (m cnt dropped : Z) (sticky : bool)
    : Z * Z * Z * bool :=
    match s with
    | c :: t =>
        if cnt <? max_sig_digits
        then accum_digits t (10 * m + (Z.of_N c - 48)) (cnt + 1) dropped sticky
        else accum_digits t m cnt (dropped + 1)
               (sticky || negb (c =? 48)%N)
    | [] => (m, cnt, dropped, sticky)
    end.

  (** Correctly rounded value of [(-1)^neg * m * 10^k], [m > 0]. *)
  Definition round_decimal (neg : bool) (m : positive) (k : Z) : f64 :=
    if 0 <=? k then
      binary_round prec emax neg (Pos.mul m (Z.to_pos (5 ^ k))) k
    else
      let '(q, e, l) :=
        SFdiv_core_binary prec emax (Zpos m) 0 (5 ^ (- k)) (- k) in
      binary_round_aux prec emax neg q e l.

  (** Value of the digit string [ip ++ fp] (integer and fractional digits)
      scaled by [10^ex], correctly rounded. *)
  Definition decimal_to_f64 (neg : bool) (ip fp : list N) (ex : Z) : f64 :=
    let sig := drop_zeros (ip ++ fp) in
    let '(m, cnt, dropped, sticky) := accum_digits sig 0 0 0 false in
    match m with
    | Zpos _ =>
        (* a nonzero dropped tail is replaced by a single trailing digit 1 *)
        let m' := if sticky then 10 * m + 1 else m in
        let nd := if sticky then cnt + 1 else cnt in
        let k := ex - len_Z fp 0 + (if sticky then dropped - 1 else dropped) in
        (* 10^(dp-1) <= value < 10^dp *)
        let dp := nd + k in
        if dp <? -340 then S754_zero neg
        else if 320 <? dp then S754_infinity neg
        else round_decimal neg (Z.to_pos m') k
    | _ => S754_zero neg
    end.

  (** Rust's [parse_number]: digits [. digits] [(e|E) [+-] digits], at least
      one mantissa digit, whole input consumed. *)
  Definition parse_number (neg : bool) (s : list N) : option f64 :=
    let '(ip, r1) := span_digits s in
    let '(fp, r2) :=
      match r1 with
      | c :: t => if (c =? 46)%N then span_digits t else ([], r1)
      | [] => ([], r1)
      end in
    match ip, fp with
    | [], [] => None
    | _, _ =>
        match r2 with
        | [] => Some (decimal_to_f64 neg ip fp 0)
        | c :: t =>
            if ((c =? 101) || (c =? 69))%N then
              match parse_exponent t with
              | Some ex => Some (decimal_to_f64 neg ip fp ex)
              | None => None
              end
            else None
        end
    end.

  (** ASCII upper-casing exactly as Rust does it here: clear bit 5. *)
  Definition up (c : N) : N := if (N.testbit c 5) then (c - 32)%N else c.

  Fixpoint eq_bytes (a b : list N) : bool :=
    match a, b with
    | [], [] => true
    | x :: a', y :: b' => (x =? y)%N && eq_bytes a' b'
    | _, _ => false
    end.

  (** Rust's [parse_inf_nan] (sign already stripped). *)
  Definition parse_inf_nan (neg : bool) (s : list N) : option f64 :=
    let u := map up s in
    if eq_bytes u [73; 78; 70]%N then Some (S754_infinity neg)
    else if eq_bytes u [73; 78; 70; 73; 78; 73; 84; 89]%N
         then Some (S754_infinity neg)
    else if eq_bytes u [78; 65; 78]%N then Some S754_nan
    else None.

End NumParse.

Definition parse_f64 (s : list N) : option f64 :=
  match s with
  | [] => None
  | c :: t =>
      let neg := (c =? 45)%N in
      let body := if ((c =? 45) || (c =? 43))%N then t else s in
      match body with
      | [] => None
      | _ :: _ =>
          match NumParse.parse_number neg body with
          | Some x => Some x
          | None => NumParse.parse_inf_nan neg body
          end
      end
  end.

(* ------------------------------------------------------------------ *)
(** ** Binary to shortest decimal: [show_f64] *)

Module NumShow.

  (** One decimal digit: [r / s] and [r mod s], given [0 <= r < 16 s] and the
      cached multiples [2s], [4s], [8s]. *)
  Definition digit_step (r s s2 s4 s8 : Z) : Z * Z :=
    let '(d, r) := if s8 <=? r then (8, r - s8) else (0, r) in
    let '(d, r) := if s4 <=? r then (d + 4, r - s4) else (d, r) in
    let '(d, r) := if s2 <=? r then (d + 2, r - s2) else (d, r) in
    if s <=? r then (d + 1, r - s) else (d, r).

  (** Increment a reversed digit string; the boolean is the carry out. *)
  Fixpoint incr_rev (ds : list Z) : list Z * bool :=
    match ds with
    | [] => ([], true)
    | d :: t =>
        if d =? 9 then let '(t', c) := incr_rev t in (0 :: t', c)
        else (d + 1 :: t, false)
    end.

  (** Scale fix-up: while [high >= 10^k] (or [>] when boundaries are
      exclusive), bump [k].  Returns the new scale and [k]. *)
  Fixpoint fixup (fuel : nat) (incl : bool) (high s k : Z) : Z * Z :=
    match fuel with
    | O => (s, k)
    | S f =>
        if (if incl then s <=? high else s <? high)
        then fixup f incl high (10 * s) (k + 1)
        else (s, k)
    end.

  (** Digit generation (Dragon4, free-format).  Invariant at entry:
      [r / s < 10].  [acc] is the reversed list of digits produced so far.
      Returns the reversed, already rounded digits and whether rounding up
      overflowed into a new leading digit. *)
  Fixpoint gen (fuel : nat) (incl : bool) (r mp mm s s2 s4 s8 : Z)
           (acc : list Z) : list Z * bool :=
    match fuel with
    | O => (acc, false)
    | S f =>
        let '(d, r) := digit_step r s s2 s4 s8 in
        let down := if incl then r <=? mm else r <? mm in
        let up := if incl then s <=? r + mp else s <? r + mp in
        if down || up then
          if up && (negb down || (s <=? 2 * r))
          then incr_rev (d :: acc)
          else (d :: acc, false)
        else gen f incl (10 * r) (10 * mp) (10 * mm) s s2 s4 s8 (d :: acc)
    end.

  (** Shortest digits of [m * 2^e] ([m], [e] canonical binary64): returns
      digits [d1 .. dn] and [k] with value [0.d1...dn * 10^k]. *)
  Definition shortest (m : positive) (e : Z) : list Z * Z :=
    let incl := Z.even (Zpos m) in
    (* As in Rust's flt2dec::decode, the lower neighbour is taken to be half
       as far whenever the mantissa is 2^52 (subnormals never have it), even
       at the smallest normal exponent. *)
    let minnorm := Pos.eqb m 4503599627370496 in
    (* v = r * 2^e2, high = (r + mp) * 2^e2, low = (r - mm) * 2^e2 *)
    let '(r, mp, e2) :=
      if minnorm then (4 * Zpos m, 2, e - 2) else (2 * Zpos m, 1, e - 1) in
    let mm := 1 in
    (* under-estimate of the decimal exponent: 78913 / 2^18 ~ log10 2 *)
    let k0 := ((Zdigits2 (Zpos m) + e - 1) * 78913) / 262144 in
    (* scale by 2^e2 / 10^k0 = 2^(e2 - k0) / 5^k0, as a fraction num / s *)
    let p5 := 5 ^ (Z.abs k0) in
    let sh := e2 - k0 in
    let num := if k0 <? 0 then p5 else 1 in
    let s := if k0 <? 0 then 1 else p5 in
    let num := if 0 <=? sh then Z.shiftl num sh else num in
    let s := if 0 <=? sh then s else Z.shiftl s (- sh) in
    let '(r, mp, mm) := (r * num, mp * num, mm * num) in
    let '(s, k) := fixup 6 incl (r + mp) s k0 in
    let '(rev, carry) :=
      gen 40 incl (10 * r) (10 * mp) (10 * mm) s (2 * s) (4 * s) (8 * s) [] in
    if carry then (1 :: rev, k + 1) else (List.rev' rev, k).

  Definition digit_byte (d : Z) : N := (Z.to_N d + 48)%N.

  Definition zeros (n : Z) : list N := repeat 48%N (Z.to_nat n).

  (** Positional rendering (core::num::flt2dec::digits_to_dec_str with
      [frac_digits = 0]). *)
  Definition render (ds : list Z) (k : Z) : list N :=
    let bs := map digit_byte ds in
    let n := Z.of_nat (length bs) in
    if k <=? 0 then 48%N :: 46%N :: zeros (- k) ++ bs
    else if k <? n then
      firstn (Z.to_nat k) bs ++ 46%N :: skipn (Z.to_nat k) bs
    else bs ++ zeros (k - n).

End NumShow.

Definition show_f64 (x : f64) : list N :=
  match x with
  | S754_nan => [78; 97; 78]%N
  | S754_infinity s =>
      if s then [45; 105; 110; 102]%N else [105; 110; 102]%N
  | S754_zero s => if s then [45; 48]%N else [48]%N
  | S754_finite s m e =>
      let '(ds, k) := NumShow.shortest m e in
      let body := NumShow.render ds k in
      if s then 45%N :: body else body
  end.

(* ------------------------------------------------------------------ *)
(** ** Regression examples (checked by computation) *)

Module NumExamples.
  Import Coq.Strings.String.
  Local Open Scope string_scope.

  Definition bytes (s : string) : list N :=
    map Ascii.N_of_ascii (list_ascii_of_string s).
  Definition p (s : string) : f64 :=
    match parse_f64 (bytes s) with Some x => x | None => S754_nan end.
  Definition show (x : f64) : string :=
    string_of_list_ascii (map Ascii.ascii_of_N (show_f64 x)).
  Definition ok (s : string) : bool :=
    match parse_f64 (bytes s) with Some _ => true | None => false end.

  Example ex_show_sum : show_f64 (f64_add (p "0.1") (p "0.2")) =
    [48; 46; 51; 48; 48; 48; 48; 48; 48; 48; 48; 48; 48; 48; 48; 48; 48; 48; 52]%N.
  Proof. vm_compute. reflexivity. Qed.

  Example ex_show_misc :
    map show [p "0.1"; f64_add (p "0.1") (p "0.2"); p "1e21"; p "1.2345678901234568e20";
              p "0.000001"; p "1e-7"; f64_div f64_one (p "3"); p "100"; p "-2.50";
              p "-0"; p "inf"; p "-Infinity"; p "nan"; p "1e400"; p "1e-400";
              p "9007199254740993"; p "1e23"; f64_of_Z (-12345)] =
    ["0.1"; "0.30000000000000004"; "1000000000000000000000"; "123456789012345680000";
     "0.000001"; "0.0000001"; "0.3333333333333333"; "100"; "-2.5";
     "-0"; "inf"; "-inf"; "NaN"; "inf"; "0";
     "9007199254740992";
     "100000000000000000000000";
     "-12345"].
  Proof. vm_compute. reflexivity. Qed.

  Example ex_show_min_subnormal :
    show (f64_of_bits 1) = "0." ++ string_of_list_ascii (repeat (Ascii.ascii_of_N 48) 323) ++ "5"
    /\ f64_same (p "5e-324") (f64_of_bits 1) = true.
  Proof. vm_compute. split; reflexivity. Qed.

  Example ex_parse_grammar :
    map ok ["1."; ".5"; "007"; "1.2"; "+1e5"; "-1E-5"; "1.e+05"; "-inf"; "+NaN"; "iNfInItY";
            ""; "."; "+"; "-"; "1.2.3"; "1e"; "e5"; "1e+"; ".e1"; " 1"; "1 "; "1_0"; "0x10";
            "infin"; "nan1"; "+-1"; "1f64"] =
    [true; true; true; true; true; true; true; true; true; true;
     false; false; false; false; false; false; false; false; false; false; false; false; false;
     false; false; false; false].
  Proof. vm_compute. reflexivity. Qed.

  Example ex_parse_rounding :
    map f64_bits
      [p "1.00000000000000011102230246251565404236316680908203125";
       p "1.00000000000000011102230246251565404236316680908203126";
       p "2.4703282292062327e-324"; p "2.4703282292062328e-324";
       p "1.7976931348623158e308"; p "1.7976931348623159e308"; p "1.5"; p "-0.0"] =
    [4607182418800017408; 4607182418800017409; 0; 1;
     9218868437227405311; 9218868437227405312; 4609434218613702656; 9223372036854775808]%Z.
  Proof. vm_compute. reflexivity. Qed.

  Example ex_floor :
    map (fun x => show (f64_floor x)) [p "0.5"; p "-0.5"; p "-0.0"; p "2.0"; p "-2.5"; p "1e300"; p "-inf"; p "nan"] =
    ["0"; "-1"; "-0"; "2"; "-3"; show (p "1e300"); "-inf"; "NaN"].
  Proof. vm_compute. reflexivity. Qed.

  Example ex_casts :
    (map f64_to_i64_sat [p "1e30"; p "-1e30"; p "nan"; p "-1.9"; p "2.9"; p "inf"],
     map f64_to_u64_sat [p "1e30"; p "-1e30"; p "nan"; p "-1.9"; p "2.9"; p "1.8446744073709552e19"]) =
    ([9223372036854775807; -9223372036854775808; 0; -1; 2; 9223372036854775807],
     [18446744073709551615; 0; 0; 0; 2; 18446744073709551615])%Z.
  Proof. vm_compute. reflexivity. Qed.

  Example ex_compare :
    (f64_eqb (p "0") (p "-0"), f64_same (p "0") (p "-0"), f64_eqb (p "nan") (p "nan"),
     f64_same (p "nan") (p "nan"), f64_ltb (p "1") (p "2"), f64_leb (p "2") (p "2"),
     f64_leb (p "nan") (p "2"), f64_is_nan (f64_sub (p "inf") (p "inf"))) =
    (true, false, false, true, true, true, false, true).
  Proof. vm_compute. reflexivity. Qed.

  Example ex_bits :
    (f64_bits f64_one, f64_bits f64_nan, f64_bits (f64_inf true), f64_bits (f64_neg f64_zero),
     f64_same (f64_of_bits 4607182418800017408) f64_one,
     f64_same (f64_of_bits 18442240474082181120) (f64_inf true),
     f64_is_nan (f64_of_bits 9218868437227405313)) =
    (4607182418800017408, 9221120237041090560, 18442240474082181120, 9223372036854775808,
     true, true, true)%Z.
  Proof. vm_compute. reflexivity. Qed.

End NumExamples.
