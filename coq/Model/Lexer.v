(* Lexer.v — abasic-core/src/line_cruncher.rs, tokenizer.rs:112-507,
   line_number_parser.rs, syntax_error.rs:5-23.

   Every matcher takes the *remaining* bytes [s] (Rust: remaining_bytes() =
   bytes[index..]) and returns how many bytes it consumed; the driver keeps the
   absolute position. *)
From Coq Require Import List NArith ZArith Bool Lia Floats.SpecFloat.
From Abasic Require Import Model.Bytes Model.Num Model.Token Model.Data Gen.Tables.
Import ListNotations.
Open Scope N_scope.

(* LineCruncher::next on [s]: first non-blank byte and the number of bytes
   consumed up to and including it. *)
Fixpoint crunch_next (s : bytes) : option (N * nat) :=
  match s with
  | [] => None
  | b :: t =>
      if is_basic_ws b then
        match crunch_next t with
        | Some (c, n) => Some (c, S n)
        | None => None
        end
      else Some (b, 1%nat)
  end.

(* chomp_leading_whitespace: number of leading blanks. *)
Fixpoint leading_ws (s : bytes) : nat :=
  match s with
  | b :: t => if is_basic_ws b then S (leading_ws t) else 0%nat
  | [] => 0%nat
  end.

(* chomp_keyword (tokenizer.rs:412-431): Some n = matched, n bytes consumed. *)
Fixpoint chomp_keyword_from (kw : bytes) (s : bytes) (acc : nat) : option nat :=
  match kw with
  | [] => Some acc
  | k :: kw' =>
    match s with
    | [] => None
    | b :: t =>
        if is_basic_ws b then chomp_keyword_from kw t (S acc)
        else if to_upper b =? k then chomp_keyword_from kw' t (S acc)
        else None
    end
  end.

Definition chomp_keyword (kw : bytes) (s : bytes) : option nat :=
  match kw with
  | [] => None                       (* assert_ne!(keyword_bytes.len(), 0) *)
  | _ => chomp_keyword_from kw s 0%nat
  end.

(* chomp_any_keyword (tokenizer.rs:341-389): first keyword of the table, in
   table order, that matches. *)
Fixpoint first_keyword (tbl : list (bytes * token)) (s : bytes) : option (token * nat) :=
  match tbl with
  | [] => None
  | (kw, t) :: tbl' =>
      match chomp_keyword kw s with
      | Some n => Some (t, n)
      | None => first_keyword tbl' s
      end
  end.

Definition chomp_any_keyword (s : bytes) : option (token * nat) := first_keyword keywords s.

(* chomp_one_or_two_characters (tokenizer.rs:150-194) *)
Fixpoint lookup_punct (tbl : list (N * token)) (b : N) : option token :=
  match tbl with
  | [] => None
  | (c, t) :: tbl' => if c =? b then Some t else lookup_punct tbl' b
  end.

Fixpoint lookup_two (tbl : list (token * N * token)) (first : token) (b : N) : option token :=
  match tbl with
  | [] => None
  | (f, c, t) :: tbl' =>
      if token_eqb f first && (c =? b) then Some t else lookup_two tbl' first b
  end.

Definition chomp_one_or_two (s : bytes) : option (token * nat) :=
  match crunch_next s with
  | None => None
  | Some (b, n) =>
      match lookup_punct punct b with
      | None => None
      | Some t =>
          match crunch_next (skipn n s) with
          | Some (c, m) =>
              match lookup_two two_char t c with
              | Some t2 => Some (t2, (n + m)%nat)
              | None => Some (t, n)
              end
          | None => Some (t, n)
          end
      end
  end.

(* chomp_string (tokenizer.rs:281-323).  Caller guarantees [s] is non-empty
   and does not start with a blank. *)
Fixpoint find_quote (s : bytes) : option nat :=
  match s with
  | [] => None
  | b :: t => if b =? 34 then Some 0%nat
              else match find_quote t with Some n => Some (S n) | None => None end
  end.

Inductive tok_error :=
| IllegalCharacter (i : nat)
| UnterminatedStringLiteral (i : nat)
| InvalidNumber (a b : nat).

Inductive chomp (A : Type) :=
| NoMatch
| Match (a : A) (n : nat)
| Fail (e : tok_error).
Arguments NoMatch {A}. Arguments Match {A}. Arguments Fail {A}.

Definition chomp_string (pos : nat) (s : bytes) : chomp token :=
  match s with
  | 34 :: t =>
      match find_quote t with
      | Some k => Match (TString (firstn k t)) (k + 2)%nat
      | None => Fail (UnterminatedStringLiteral pos)
      end
  | _ => NoMatch
  end.

Definition f64_is_finite (x : f64) : bool :=
  match x with
  | Floats.SpecFloat.S754_zero _ => true
  | Floats.SpecFloat.S754_finite _ _ _ => true
  | _ => false
  end.

(* chomp_number (tokenizer.rs:249-279): digits and dots over the crunched
   bytes; [n] = position after the last one. *)
Fixpoint number_span (s : bytes) (skipped : nat) (digits : bytes) (last : nat)
  : bytes * nat :=
  match s with
  | [] => (digits, last)
  | b :: t =>
      if is_basic_ws b then number_span t (S skipped) digits last
      else if is_digit b || (b =? 46) then
        number_span t (S skipped) (digits ++ [b]) (S skipped)
      else (digits, last)
  end.

Definition chomp_number (pos : nat) (s : bytes) : chomp token :=
  match number_span s 0%nat [] 0%nat with
  | (_, O) => NoMatch
  | (digits, n) =>
      match parse_f64 digits with
      | Some x => if f64_is_finite x then Match (TNumber x) n
                  else Fail (InvalidNumber pos (pos + n)%nat)
      | None => Fail (InvalidNumber pos (pos + n)%nat)
      end
  end.

(* chomp_remark (tokenizer.rs:325-339) *)
Definition chomp_remark (s : bytes) : chomp token :=
  match chomp_keyword rem_keyword s with
  | Some n => let c := skipn n s in Match (TRemark c) (n + length c)%nat
  | None => NoMatch
  end.

(* chomp_data (tokenizer.rs:391-410) *)
Definition chomp_data (s : bytes) : chomp token :=
  match chomp_keyword data_keyword s with
  | Some n => let '(elems, m) := parse_data (skipn n s) in Match (TData elems) (n + m)%nat
  | None => NoMatch
  end.

(* chomp_symbol (tokenizer.rs:196-247).  Walks byte by byte; [pending] blanks
   are consumed only if another symbol character follows. *)
Fixpoint symbol_span (s : bytes) (chars : bytes) (consumed pending : nat) : bytes * nat :=
  match s with
  | [] => (chars, consumed)
  | b :: t =>
      if is_basic_ws b then symbol_span t chars consumed (S pending)
      else
        let dollar := b =? 36 in
        let valid := match chars with
                     | [] => is_alpha b
                     | _ => is_alnum b || dollar
                     end in
        if negb valid then (chars, consumed)
        else
          let chars' := chars ++ [to_upper b] in
          let consumed' := (consumed + pending + 1)%nat in
          if dollar then (chars', consumed')
          else match chomp_any_keyword t with
               | Some _ => (chars', consumed')
               | None => symbol_span t chars' consumed' 0%nat
               end
  end.

Definition chomp_symbol (s : bytes) : chomp token :=
  match symbol_span s [] 0%nat 0%nat with
  | ([], _) => NoMatch
  | (chars, n) => Match (TSymbol chars) n
  end.

(* chomp_next_token (tokenizer.rs:433-456).  [s] is non-empty and starts with
   a non-blank byte. *)
Definition chomp_next_token (pos : nat) (s : bytes) : chomp token :=
  match chomp_any_keyword s with
  | Some (t, n) => Match t n
  | None =>
  match chomp_one_or_two s with
  | Some (t, n) => Match t n
  | None =>
  match chomp_string pos s with
  | NoMatch =>
  match chomp_number pos s with
  | NoMatch =>
  match chomp_remark s with
  | NoMatch =>
  match chomp_data s with
  | NoMatch =>
  match chomp_symbol s with
  | NoMatch => Fail (IllegalCharacter pos)
  | r => r end
  | r => r end
  | r => r end
  | r => r end
  | r => r end
  end end.

Definition ranged := (token * (nat * nat))%type.

Inductive tok_result :=
| TokOk (ts : list ranged)
| TokErr (before : list ranged) (e : tok_error).

(* The iterator (tokenizer.rs:485-507), folded.  [fuel] bounds the number of
   tokens; every token consumes at least one byte, so [S (length s)] is enough
   (lemma tokenize_fuel_enough). *)
Fixpoint tokenize_from (fuel : nat) (pos : nat) (s : bytes) (acc : list ranged) : tok_result :=
  match fuel with
  | O => TokOk (rev acc)
  | S fuel' =>
      let w := leading_ws s in
      let s1 := skipn w s in
      let p1 := (pos + w)%nat in
      match s1 with
      | [] => TokOk (rev acc)
      | _ =>
          match chomp_next_token p1 s1 with
          | Match t n => tokenize_from fuel' (p1 + n)%nat (skipn n s1) ((t, (p1, (p1 + n)%nat)) :: acc)
          | Fail e => TokErr (rev acc) e
          | NoMatch => TokErr (rev acc) (IllegalCharacter p1)
          end
      end
  end.

(* Tokenizer::new(line).skip_bytes(skip) *)
Definition tokenize (line : bytes) (skip : nat) : tok_result :=
  let s := skipn skip line in
  tokenize_from (S (length s)) skip s [].

Definition tokens_of (r : tok_result) : option (list token) :=
  match r with TokOk ts => Some (map fst ts) | TokErr _ _ => None end.

(* TokenizationError::string_range (syntax_error.rs:15-23) *)
Definition error_range (e : tok_error) (len : nat) : nat * nat :=
  match e with
  | IllegalCharacter i => (i, S i)
  | UnterminatedStringLiteral i => (i, len)
  | InvalidNumber a b => (a, b)
  end.

(* ------------------------------------------------------------------ *)
(* parse_line_number (line_number_parser.rs:8-41).  All bytes it inspects
   before stopping are ASCII, so byte-wise scanning equals char_indices. *)
Fixpoint skip_ascii_ws (s : bytes) : nat :=
  match s with
  | b :: t => if is_ascii_ws b then S (skip_ascii_ws t) else 0%nat
  | [] => 0%nat
  end.

Fixpoint digit_run (s : bytes) : bytes :=
  match s with
  | b :: t => if is_digit b then b :: digit_run t else []
  | [] => []
  end.

Definition digits_value (ds : bytes) : N := fold_left (fun acc d => acc * 10 + (d - 48)) ds 0.

Definition U64_MAX : N := 18446744073709551615.

Definition parse_line_number (line : bytes) : option (N * nat) :=
  let w := skip_ascii_ws line in
  let ds := digit_run (skipn w line) in
  match ds with
  | [] => None
  | _ => let v := digits_value ds in
         if v <=? U64_MAX then Some (v, (w + length ds)%nat) else None
  end.

(* ------------------------------------------------------------------ *)
(* Canonical rendering, as printed by the harness command `tok`. *)
Definition canon_ranged (r : ranged) : bytes :=
  let '(t, (a, b)) := r in canon_token t ++ [64] ++ show_nat a ++ [45] ++ show_nat b.

Definition canon_tok_error (e : tok_error) : bytes :=
  match e with
  | IllegalCharacter i => bs "IllegalCharacter@" ++ show_nat i
  | UnterminatedStringLiteral i => bs "UnterminatedStringLiteral@" ++ show_nat i
  | InvalidNumber a b => bs "InvalidNumber@" ++ show_nat a ++ [45] ++ show_nat b
  end.

Definition canon_tok_result (r : tok_result) : bytes :=
  match r with
  | TokOk ts => join [59] (map canon_ranged ts) ++ [9]
  | TokErr ts e => join [59] (map canon_ranged ts) ++ [9] ++ canon_tok_error e
  end.

(* Debug of TokenizationError, as it appears inside `{:?}` of InterpreterError *)
Definition debug_tok_error (e : tok_error) : bytes :=
  match e with
  | IllegalCharacter i => bs "IllegalCharacter(" ++ show_nat i ++ bs ")"
  | UnterminatedStringLiteral i => bs "UnterminatedStringLiteral(" ++ show_nat i ++ bs ")"
  | InvalidNumber a b => bs "InvalidNumber(" ++ show_nat a ++ bs ".." ++ show_nat b ++ bs ")"
  end.
