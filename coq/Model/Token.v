(* Token.v — abasic-core/src/tokenizer.rs:13-59 (enum Token) and
   data.rs:61-65 (enum DataElement). *)
From Coq Require Import List NArith ZArith Bool.
From Abasic Require Import Model.Bytes Model.Num.
Import ListNotations.

Inductive data_elem :=
| DStr (s : bytes)
| DNum (x : f64).

Inductive token :=
| TDim | TLet | TPrint | TInput | TGoto | TGosub | TReturn
| TColon | TSemicolon | TComma | TQuestionMark | TLeftParen | TRightParen
| TPlus | TMinus | TMultiply | TDivide | TCaret
| TEquals | TNotEquals | TLessThan | TLessThanOrEqualTo | TGreaterThan | TGreaterThanOrEqualTo
| TAnd | TOr | TNot | TIf | TThen | TElse | TEnd | TStop | TFor | TTo | TStep | TNext
| TRead | TRestore | TDef
| TRemark (c : bytes)
| TSymbol (s : bytes)
| TString (s : bytes)
| TNumber (x : f64)
| TData (d : list data_elem).

(* A small integer tag per constructor; used for equality on nullary tokens
   and for table lookups. *)
Definition token_tag (t : token) : N :=
  match t with
  | TDim => 0 | TLet => 1 | TPrint => 2 | TInput => 3 | TGoto => 4 | TGosub => 5 | TReturn => 6
  | TColon => 7 | TSemicolon => 8 | TComma => 9 | TQuestionMark => 10 | TLeftParen => 11
  | TRightParen => 12 | TPlus => 13 | TMinus => 14 | TMultiply => 15 | TDivide => 16 | TCaret => 17
  | TEquals => 18 | TNotEquals => 19 | TLessThan => 20 | TLessThanOrEqualTo => 21
  | TGreaterThan => 22 | TGreaterThanOrEqualTo => 23 | TAnd => 24 | TOr => 25 | TNot => 26
  | TIf => 27 | TThen => 28 | TElse => 29 | TEnd => 30 | TStop => 31 | TFor => 32 | TTo => 33
  | TStep => 34 | TNext => 35 | TRead => 36 | TRestore => 37 | TDef => 38
  | TRemark _ => 39 | TSymbol _ => 40 | TString _ => 41 | TNumber _ => 42 | TData _ => 43
  end%N.

Definition data_elem_eqb (a b : data_elem) : bool :=
  match a, b with
  | DStr x, DStr y => bytes_eqb x y
  | DNum x, DNum y => f64_eqb x y            (* Rust f64 ==, so NaN <> NaN *)
  | _, _ => false
  end.

Fixpoint data_list_eqb (a b : list data_elem) : bool :=
  match a, b with
  | [], [] => true
  | x :: a', y :: b' => data_elem_eqb x y && data_list_eqb a' b'
  | _, _ => false
  end.

(* #[derive(PartialEq)] on Token *)
Definition token_eqb (a b : token) : bool :=
  match a, b with
  | TRemark x, TRemark y => bytes_eqb x y
  | TSymbol x, TSymbol y => bytes_eqb x y
  | TString x, TString y => bytes_eqb x y
  | TNumber x, TNumber y => f64_eqb x y
  | TData x, TData y => data_list_eqb x y
  | _, _ => (token_tag a =? token_tag b)%N && (token_tag a <? 39)%N
  end.

(* Structural equality (used when comparing token sequences of two texts:
   NaN payloads compare equal, +0 and -0 differ). *)
Definition data_elem_same (a b : data_elem) : bool :=
  match a, b with
  | DStr x, DStr y => bytes_eqb x y
  | DNum x, DNum y => f64_same x y
  | _, _ => false
  end.

Fixpoint data_list_same (a b : list data_elem) : bool :=
  match a, b with
  | [], [] => true
  | x :: a', y :: b' => data_elem_same x y && data_list_same a' b'
  | _, _ => false
  end.

Definition token_same (a b : token) : bool :=
  match a, b with
  | TRemark x, TRemark y => bytes_eqb x y
  | TSymbol x, TSymbol y => bytes_eqb x y
  | TString x, TString y => bytes_eqb x y
  | TNumber x, TNumber y => f64_same x y
  | TData x, TData y => data_list_same x y
  | _, _ => (token_tag a =? token_tag b)%N && (token_tag a <? 39)%N
  end.

(* data.rs:67-76 data_elements_to_string *)
Definition show_data_elem (e : data_elem) : bytes :=
  match e with
  | DStr s => if existsb (N.eqb 34) s then s else 34%N :: s ++ [34%N]
  | DNum x => show_f64 x
  end.

Definition show_data (d : list data_elem) : bytes :=
  join [44; 32]%N (map show_data_elem d).

(* Name of the Rust variant, as #[derive(Debug)] prints nullary ones. *)
Definition token_name (t : token) : bytes :=
  bs match t with
  | TDim => "Dim" | TLet => "Let" | TPrint => "Print" | TInput => "Input" | TGoto => "Goto"
  | TGosub => "Gosub" | TReturn => "Return" | TColon => "Colon" | TSemicolon => "Semicolon"
  | TComma => "Comma" | TQuestionMark => "QuestionMark" | TLeftParen => "LeftParen"
  | TRightParen => "RightParen" | TPlus => "Plus" | TMinus => "Minus" | TMultiply => "Multiply"
  | TDivide => "Divide" | TCaret => "Caret" | TEquals => "Equals" | TNotEquals => "NotEquals"
  | TLessThan => "LessThan" | TLessThanOrEqualTo => "LessThanOrEqualTo"
  | TGreaterThan => "GreaterThan" | TGreaterThanOrEqualTo => "GreaterThanOrEqualTo"
  | TAnd => "And" | TOr => "Or" | TNot => "Not" | TIf => "If" | TThen => "Then" | TElse => "Else"
  | TEnd => "End" | TStop => "Stop" | TFor => "For" | TTo => "To" | TStep => "Step"
  | TNext => "Next" | TRead => "Read" | TRestore => "Restore" | TDef => "Def"
  | TRemark _ => "Remark" | TSymbol _ => "Symbol" | TString _ => "StringLiteral"
  | TNumber _ => "NumericLiteral" | TData _ => "Data"
  end%string.

(* Canonical text used by the harness (abasic_core::verif::token). *)
Definition show_bits (x : f64) : bytes := show_hex_width 16 (Z.to_N (f64_bits x)) [].

Definition canon_data_elem (e : data_elem) : bytes :=
  match e with
  | DStr s => 83%N :: esc s
  | DNum x => 78%N :: show_bits x
  end.

Definition canon_token (t : token) : bytes :=
  match t with
  | TRemark c => token_name t ++ [91%N] ++ esc c ++ [93%N]
  | TSymbol s => token_name t ++ [91%N] ++ esc s ++ [93%N]
  | TString s => token_name t ++ [91%N] ++ esc s ++ [93%N]
  | TNumber x => token_name t ++ [91%N] ++ show_bits x ++ [93%N]
  | TData d => token_name t ++ [91%N] ++ join [44%N] (map canon_data_elem d) ++ [93%N]
  | _ => token_name t
  end.
