(* State.v — the interpreter state (interpreter.rs:28-39, program.rs:94-103,
   program_lines.rs:10-18, arrays.rs, variables.rs, data.rs:17-22), the result
   monad, and the primitive operations of program.rs / arrays.rs / variables.rs
   / random.rs.  Everything the evaluators do to the state goes through the
   primitives defined here. *)
From Coq Require Import List NArith ZArith Bool Lia.
From Abasic Require Import Model.Bytes Model.Num Model.Token Model.Data Model.Lexer Gen.Tables.
Import ListNotations.
Open Scope N_scope.

(* ------------------------------------------------------------------ *)
(* Data types *)

Inductive value := VStr (s : bytes) | VNum (x : f64).

(* program.rs:54-58 ProgramLocation; [None] = ProgramLine::Immediate *)
Record location := mkloc { loc_line : option N; loc_idx : nat }.

Definition imm0 : location := mkloc None 0.

Record frame := mkframe { fr_ret : location; fr_vars : list (bytes * value) }.

Record loop_info := mkloop { lp_loc : location; lp_sym : bytes; lp_to : f64; lp_step : f64 }.

Record fn_def := mkfn { fn_args : list bytes; fn_line : N; fn_idx : nat }.

Record data_iter := mkdi {
  di_chunks : list (location * list data_elem);
  di_ci : nat;
  di_ii : nat }.

(* arrays.rs:88-91,134-137: ValueArray::{String,Number}(DimArray{values,dimensions}) *)
Record arr := mkarr { ar_str : bool; ar_dims : list N; ar_cells : list value }.

Inductive istate := Idle | Running | AwaitingInput | NewInterpreterRequested.

Inductive output :=
| OPrint (s : bytes)
| OBreak (l : option N)
| OWarning (m : bytes) (l : option N)
| OTrace (n : N)
| OExtraIgnored
| OReenter.

Inductive ierror :=
| ESyntaxTok (e : tok_error)
| EUnexpectedToken
| EExpectedToken (t : token)
| EUnexpectedEnd
| ETypeMismatch
| EDataTypeMismatch
| EUndefinedStatement
| EStackOverflow
| EArrayTooLarge
| EOutOfData
| EReturnWithoutGosub
| ENextWithoutFor
| EBadSubscript
| EIllegalQuantity
| EUnimplemented
| EDivisionByZero
| ERedimensionedArray
| ECannotContinue
| EIllegalDirect.

(* Every place where the Rust can panic has its own tag. *)
Inductive panic_tag :=
| PUnwrapLine          (* program.rs tokens_for_line: numbered_lines.get(n).unwrap() *)
| PRewind              (* program.rs rewind_before_token: token not found *)
| PAssertState         (* interpreter.rs: assert_eq!(self.state, ...) *)
| PFunctionMustExist   (* program.rs: expect("function must exist") *)
| PStackEmpty          (* program.rs: expect("stack must not be empty") *)
| PListUnwrap          (* program_lines.rs: numbered_lines.get(line).unwrap() in list / data_iterator *)
| PArrayUnwrap         (* arrays.rs: self.0.get(array_name).unwrap() *)
| PCellIndex           (* arrays.rs: self.values[linear_index] *)
| PArityZero.          (* expression.rs: arity - 1 with arity = 0 *)

Record interp := mkinterp {
  (* ProgramLines *)
  st_toks : list (N * list token);        (* numbered_lines : HashMap *)
  st_keys : list N;                       (* sorted_line_numbers : BTreeSet, ascending *)
  (* Program *)
  immediate : list token;
  loc : location;
  breakpoint : option (N * nat);
  stack : list frame;                     (* Vec order: bottom first *)
  loops : list loop_info;                 (* Vec order: oldest first *)
  data_it : option data_iter;
  functions : list (bytes * fn_def);      (* HashMap *)
  (* Interpreter *)
  input : option bytes;
  outputs : list output;                  (* Vec order *)
  state : istate;
  rng : N;
  variables : list (bytes * value);       (* HashMap *)
  arrays : list (bytes * arr);            (* HashMap *)
  enable_warnings : bool;
  enable_tracing : bool;
  (* model-only *)
  pow_oracle : list (Z * Z * Z);          (* bit patterns (x, y, x.powf(y)) logged from the implementation *)
  reads : nat                             (* token-cursor reads (hook counter) *)
}.

Definition init_interp : interp :=
  mkinterp [] [] [] imm0 None [] [] None [] None [] Idle 0 [] [] false false [] 0.

(* Setters (explicit record rebuilds; every projection of a setter reduces by
   computation). *)
Definition set_store (t : list (N * list token)) (k : list N) (s : interp) : interp :=
  mkinterp t k (immediate s) (loc s) (breakpoint s) (stack s) (loops s) (data_it s) (functions s)
           (input s) (outputs s) (state s) (rng s) (variables s) (arrays s)
           (enable_warnings s) (enable_tracing s) (pow_oracle s) (reads s).
Definition set_immediate (v : list token) (s : interp) : interp :=
  mkinterp (st_toks s) (st_keys s) v (loc s) (breakpoint s) (stack s) (loops s) (data_it s) (functions s)
           (input s) (outputs s) (state s) (rng s) (variables s) (arrays s)
           (enable_warnings s) (enable_tracing s) (pow_oracle s) (reads s).
Definition set_loc (v : location) (s : interp) : interp :=
  mkinterp (st_toks s) (st_keys s) (immediate s) v (breakpoint s) (stack s) (loops s) (data_it s) (functions s)
           (input s) (outputs s) (state s) (rng s) (variables s) (arrays s)
           (enable_warnings s) (enable_tracing s) (pow_oracle s) (reads s).
Definition set_breakpoint (v : option (N * nat)) (s : interp) : interp :=
  mkinterp (st_toks s) (st_keys s) (immediate s) (loc s) v (stack s) (loops s) (data_it s) (functions s)
           (input s) (outputs s) (state s) (rng s) (variables s) (arrays s)
           (enable_warnings s) (enable_tracing s) (pow_oracle s) (reads s).
Definition set_stack (v : list frame) (s : interp) : interp :=
  mkinterp (st_toks s) (st_keys s) (immediate s) (loc s) (breakpoint s) v (loops s) (data_it s) (functions s)
           (input s) (outputs s) (state s) (rng s) (variables s) (arrays s)
           (enable_warnings s) (enable_tracing s) (pow_oracle s) (reads s).
Definition set_loops (v : list loop_info) (s : interp) : interp :=
  mkinterp (st_toks s) (st_keys s) (immediate s) (loc s) (breakpoint s) (stack s) v (data_it s) (functions s)
           (input s) (outputs s) (state s) (rng s) (variables s) (arrays s)
           (enable_warnings s) (enable_tracing s) (pow_oracle s) (reads s).
Definition set_data_it (v : option data_iter) (s : interp) : interp :=
  mkinterp (st_toks s) (st_keys s) (immediate s) (loc s) (breakpoint s) (stack s) (loops s) v (functions s)
           (input s) (outputs s) (state s) (rng s) (variables s) (arrays s)
           (enable_warnings s) (enable_tracing s) (pow_oracle s) (reads s).
Definition set_functions (v : list (bytes * fn_def)) (s : interp) : interp :=
  mkinterp (st_toks s) (st_keys s) (immediate s) (loc s) (breakpoint s) (stack s) (loops s) (data_it s) v
           (input s) (outputs s) (state s) (rng s) (variables s) (arrays s)
           (enable_warnings s) (enable_tracing s) (pow_oracle s) (reads s).
Definition set_input (v : option bytes) (s : interp) : interp :=
  mkinterp (st_toks s) (st_keys s) (immediate s) (loc s) (breakpoint s) (stack s) (loops s) (data_it s) (functions s)
           v (outputs s) (state s) (rng s) (variables s) (arrays s)
           (enable_warnings s) (enable_tracing s) (pow_oracle s) (reads s).
Definition set_outputs (v : list output) (s : interp) : interp :=
  mkinterp (st_toks s) (st_keys s) (immediate s) (loc s) (breakpoint s) (stack s) (loops s) (data_it s) (functions s)
           (input s) v (state s) (rng s) (variables s) (arrays s)
           (enable_warnings s) (enable_tracing s) (pow_oracle s) (reads s).
Definition set_state (v : istate) (s : interp) : interp :=
  mkinterp (st_toks s) (st_keys s) (immediate s) (loc s) (breakpoint s) (stack s) (loops s) (data_it s) (functions s)
           (input s) (outputs s) v (rng s) (variables s) (arrays s)
           (enable_warnings s) (enable_tracing s) (pow_oracle s) (reads s).
Definition set_rng (v : N) (s : interp) : interp :=
  mkinterp (st_toks s) (st_keys s) (immediate s) (loc s) (breakpoint s) (stack s) (loops s) (data_it s) (functions s)
           (input s) (outputs s) (state s) v (variables s) (arrays s)
           (enable_warnings s) (enable_tracing s) (pow_oracle s) (reads s).
Definition set_variables (v : list (bytes * value)) (s : interp) : interp :=
  mkinterp (st_toks s) (st_keys s) (immediate s) (loc s) (breakpoint s) (stack s) (loops s) (data_it s) (functions s)
           (input s) (outputs s) (state s) (rng s) v (arrays s)
           (enable_warnings s) (enable_tracing s) (pow_oracle s) (reads s).
Definition set_arrays (v : list (bytes * arr)) (s : interp) : interp :=
  mkinterp (st_toks s) (st_keys s) (immediate s) (loc s) (breakpoint s) (stack s) (loops s) (data_it s) (functions s)
           (input s) (outputs s) (state s) (rng s) (variables s) v
           (enable_warnings s) (enable_tracing s) (pow_oracle s) (reads s).
Definition set_flags (w t : bool) (s : interp) : interp :=
  mkinterp (st_toks s) (st_keys s) (immediate s) (loc s) (breakpoint s) (stack s) (loops s) (data_it s) (functions s)
           (input s) (outputs s) (state s) (rng s) (variables s) (arrays s)
           w t (pow_oracle s) (reads s).
Definition set_oracle (v : list (Z * Z * Z)) (s : interp) : interp :=
  mkinterp (st_toks s) (st_keys s) (immediate s) (loc s) (breakpoint s) (stack s) (loops s) (data_it s) (functions s)
           (input s) (outputs s) (state s) (rng s) (variables s) (arrays s)
           (enable_warnings s) (enable_tracing s) v (reads s).
Definition set_reads (v : nat) (s : interp) : interp :=
  mkinterp (st_toks s) (st_keys s) (immediate s) (loc s) (breakpoint s) (stack s) (loops s) (data_it s) (functions s)
           (input s) (outputs s) (state s) (rng s) (variables s) (arrays s)
           (enable_warnings s) (enable_tracing s) (pow_oracle s) v.

(* ------------------------------------------------------------------ *)
(* Results and the state monad.  The state is always returned: an error
   leaves every effect made before it in place, as in the Rust. *)

Inductive res (A : Type) :=
| Ok (a : A)
| Err (e : ierror) (l : option location)
| Panic (p : panic_tag)
| OutOfFuel
| OracleMiss.
Arguments Ok {A}. Arguments Err {A}. Arguments Panic {A}. Arguments OutOfFuel {A}. Arguments OracleMiss {A}.

Definition M (A : Type) := interp -> res A * interp.

Definition ret {A} (a : A) : M A := fun s => (Ok a, s).

Definition bind {A B} (m : M A) (f : A -> M B) : M B :=
  fun s => match m s with
           | (Ok a, s') => f a s'
           | (Err e l, s') => (Err e l, s')
           | (Panic p, s') => (Panic p, s')
           | (OutOfFuel, s') => (OutOfFuel, s')
           | (OracleMiss, s') => (OracleMiss, s')
           end.

Notation "x <- m ;; f" := (bind m (fun x => f)) (at level 61, m at next level, right associativity).
Notation "m ;;; f" := (bind m (fun _ => f)) (at level 61, right associativity).

Definition fail {A} (e : ierror) : M A := fun s => (Err e None, s).
Definition fail_at {A} (e : ierror) (l : location) : M A := fun s => (Err e (Some l), s).
Definition panic {A} (p : panic_tag) : M A := fun s => (Panic p, s).
Definition out_of_fuel {A} : M A := fun s => (OutOfFuel, s).
Definition oracle_miss {A} : M A := fun s => (OracleMiss, s).
Definition get {A} (f : interp -> A) : M A := fun s => (Ok (f s), s).
Definition modify (f : interp -> interp) : M unit := fun s => (Ok tt, f s).

(* A bounded loop: [body] returns [inl acc'] to continue, [inr r] to stop. *)
Fixpoint repeat_m {S R} (n : nat) (body : S -> M (S + R)) (acc : S) : M R :=
  match n with
  | O => out_of_fuel
  | S n' => bind (body acc) (fun r =>
              match r with
              | inl acc' => repeat_m n' body acc'
              | inr r => ret r
              end)
  end.

(* ------------------------------------------------------------------ *)
(* Association lists standing for HashMaps *)

Fixpoint alist_get {V} (k : bytes) (l : list (bytes * V)) : option V :=
  match l with
  | [] => None
  | (k', v) :: r => if bytes_eqb k k' then Some v else alist_get k r
  end.

Fixpoint alist_set {V} (k : bytes) (v : V) (l : list (bytes * V)) : list (bytes * V) :=
  match l with
  | [] => [(k, v)]
  | (k', v') :: r => if bytes_eqb k k' then (k, v) :: r else (k', v') :: alist_set k v r
  end.

Definition alist_has {V} (k : bytes) (l : list (bytes * V)) : bool :=
  match alist_get k l with Some _ => true | None => false end.

(* ------------------------------------------------------------------ *)
(* Program store (program_lines.rs) *)

Fixpoint toks_get (n : N) (l : list (N * list token)) : option (list token) :=
  match l with
  | [] => None
  | (k, v) :: r => if k =? n then Some v else toks_get n r
  end.

Fixpoint toks_remove (n : N) (l : list (N * list token)) : list (N * list token) :=
  match l with
  | [] => []
  | (k, v) :: r => if k =? n then toks_remove n r else (k, v) :: toks_remove n r
  end.

Definition toks_set (n : N) (v : list token) (l : list (N * list token)) : list (N * list token) :=
  (n, v) :: toks_remove n l.

Fixpoint keys_insert (n : N) (l : list N) : list N :=
  match l with
  | [] => [n]
  | k :: r => if n <? k then n :: l else if n =? k then l else k :: keys_insert n r
  end.

Fixpoint keys_remove (n : N) (l : list N) : list N :=
  match l with
  | [] => []
  | k :: r => if k =? n then r else k :: keys_remove n r
  end.

(* ProgramLines::set (program_lines.rs:65-73) *)
Definition store_set (n : N) (v : list token) (s : interp) : interp :=
  match v with
  | [] => set_store (toks_remove n (st_toks s)) (keys_remove n (st_keys s)) s
  | _ => set_store (toks_set n v (st_toks s)) (keys_insert n (st_keys s)) s
  end.

Definition store_has (n : N) (s : interp) : bool :=
  match toks_get n (st_toks s) with Some _ => true | None => false end.

Definition store_first (s : interp) : option N := hd_error (st_keys s).

(* ProgramLines::after: least key strictly greater than [n] (exclusive bound). *)
Fixpoint keys_after (n : N) (l : list N) : option N :=
  match l with
  | [] => None
  | k :: r => if n <? k then Some k else keys_after n r
  end.

Definition store_after (n : N) (s : interp) : option N := keys_after n (st_keys s).

(* ------------------------------------------------------------------ *)
(* Values *)

Definition ends_with_dollar (name : bytes) : bool :=
  match rev name with 36 :: _ => true | _ => false end.

(* Value::default_for_variable *)
Definition default_value (name : bytes) : value :=
  if ends_with_dollar name then VStr [] else VNum f64_zero.

(* Value::validate_type_matches_variable_name *)
Definition type_matches (name : bytes) (v : value) : bool :=
  match v with
  | VStr _ => ends_with_dollar name
  | VNum _ => negb (ends_with_dollar name)
  end.

Definition to_bool (v : value) : bool :=
  match v with
  | VStr s => match s with [] => false | _ => true end
  | VNum x => negb (f64_eqb x f64_zero)
  end.

Definition from_bool (b : bool) : value := VNum (if b then f64_one else f64_zero).

(* Value::coerce_from_data_element *)
Definition coerce_data (name : bytes) (e : data_elem) : res value :=
  if ends_with_dollar name then
    match e with
    | DStr s => Ok (VStr s)
    | DNum x => Ok (VStr (show_f64 x))
    end
  else
    match e with
    | DStr _ => Err EDataTypeMismatch None
    | DNum x => Ok (VNum x)
    end.

(* ------------------------------------------------------------------ *)
(* Token cursor (program.rs:502-600) *)

Definition tokens_for_line (l : option N) : M (list token) :=
  fun s => match l with
           | None => (Ok (immediate s), s)
           | Some n => match toks_get n (st_toks s) with
                       | Some ts => (Ok ts, s)
                       | None => (Panic PUnwrapLine, s)
                       end
           end.

Definition cur_tokens : M (list token) :=
  l <- get loc ;; tokens_for_line (loc_line l).

Definition peek_next_token : M (option token) :=
  modify (fun s => set_reads (S (reads s)) s) ;;;
  ts <- cur_tokens ;;
  l <- get loc ;;
  ret (nth_error ts (loc_idx l)).

Definition has_next_token : M bool :=
  t <- peek_next_token ;; ret (match t with Some _ => true | None => false end).

Definition advance : M unit :=
  modify (fun s => set_loc (mkloc (loc_line (loc s)) (S (loc_idx (loc s)))) s).

Definition next_token : M (option token) :=
  t <- peek_next_token ;;
  match t with
  | Some _ => advance ;;; ret t
  | None => ret None
  end.

Definition next_unwrapped_token : M token :=
  t <- next_token ;;
  match t with
  | Some t => ret t
  | None => l <- get loc ;; fail_at EUnexpectedEnd l
  end.

Definition expect_next_token (e : token) : M unit :=
  t <- next_unwrapped_token ;;
  if token_eqb t e then ret tt else fail (EExpectedToken e).

Definition accept_next_token (e : token) : M bool :=
  t <- peek_next_token ;;
  match t with
  | Some t => if token_eqb t e then advance ;;; ret true else ret false
  | None => ret false
  end.

Definition peek_is (e : token) : M bool :=
  t <- peek_next_token ;;
  ret (match t with Some t => token_eqb t e | None => false end).

Definition try_next_token {A} (f : token -> option A) : M (option A) :=
  t <- peek_next_token ;;
  match t with
  | Some t => match f t with
              | Some a => advance ;;; ret (Some a)
              | None => ret None
              end
  | None => ret None
  end.

Definition discard_remaining_tokens : M unit :=
  ts <- cur_tokens ;;
  modify (fun s => set_loc (mkloc (loc_line (loc s)) (length ts)) s).

(* rewind_before_token (program.rs:541-550) *)
Fixpoint rewind_loop (i : nat) (e : token) : M unit :=
  match i with
  | O => panic PRewind
  | S i' =>
      modify (fun s => set_loc (mkloc (loc_line (loc s)) i') s) ;;;
      b <- peek_is e ;;
      if b then ret tt else rewind_loop i' e
  end.

Definition rewind_before_token (e : token) : M unit :=
  l <- get loc ;; rewind_loop (loc_idx l) e.

(* ------------------------------------------------------------------ *)
(* Program control (program.rs:105-500) *)

Definition get_line_number : M (option N) := l <- get loc ;; ret (loc_line l).

Definition set_and_goto_immediate_line (ts : list token) : M unit :=
  modify (fun s =>
    let s1 := match breakpoint s with None => set_stack [] s | Some _ => s end in
    set_loc imm0 (set_immediate ts s1)).

(* position of the *last* loop with this symbol (iter().enumerate().rev()) *)
Fixpoint find_loop_rev (sym : bytes) (l : list loop_info) : option nat :=
  match l with
  | [] => None
  | x :: r =>
      match find_loop_rev sym r with
      | Some i => Some (S i)
      | None => if bytes_eqb (lp_sym x) sym then Some 0%nat else None
      end
  end.

(* remove_loop_with_name: drain(i..), return element i *)
Definition remove_loop_with_name (sym : bytes) : M (option loop_info) :=
  ls <- get loops ;;
  match find_loop_rev sym ls with
  | Some i =>
      modify (set_loops (firstn i ls)) ;;;
      ret (nth_error ls i)
  | None => ret None
  end.

Definition numbered_of (l : location) : option (N * nat) :=
  match loc_line l with Some n => Some (n, loc_idx l) | None => None end.

Definition loc_of_numbered (p : N * nat) : location := mkloc (Some (fst p)) (snd p).

Definition program_break_at_current_location : M unit :=
  l <- get loc ;;
  modify (set_breakpoint (numbered_of l)) ;;;
  set_and_goto_immediate_line [].

Definition continue_from_breakpoint : M unit :=
  set_and_goto_immediate_line [] ;;;
  bp <- get breakpoint ;;
  match bp with
  | None => fail ECannotContinue
  | Some p => modify (fun s => set_breakpoint None (set_loc (loc_of_numbered p) s))
  end.

Definition variables_set (name : bytes) (v : value) : M unit :=
  if type_matches name v then modify (fun s => set_variables (alist_set name v (variables s)) s)
  else fail ETypeMismatch.

Definition variables_get (name : bytes) : M value :=
  vs <- get variables ;;
  ret (match alist_get name vs with Some v => v | None => default_value name end).

Definition stack_limit : nat := N.to_nat STACK_LIMIT.

Definition start_loop (sym : bytes) (from to step : f64) : M unit :=
  remove_loop_with_name sym ;;;
  ls <- get loops ;;
  if Nat.eqb (length ls) stack_limit then fail EStackOverflow
  else
    l <- get loc ;;
    modify (set_loops (ls ++ [mkloop l sym to step])) ;;;
    variables_set sym (VNum from).

Definition end_loop (sym : bytes) : M unit :=
  cur <- variables_get sym ;;
  match cur with
  | VStr _ => fail ETypeMismatch
  | VNum x =>
      li <- remove_loop_with_name sym ;;
      match li with
      | None => fail ENextWithoutFor
      | Some li =>
          if negb (bytes_eqb (lp_sym li) sym) then fail ENextWithoutFor
          else
            let new_value := f64_add x (lp_step li) in
            let continue_loop :=
              if f64_leb f64_zero (lp_step li)       (* step_value >= 0.0 *)
              then f64_leb new_value (lp_to li)
              else f64_leb (lp_to li) new_value in   (* new_value >= to_value *)
            (if continue_loop
             then modify (fun s => set_loops (loops s ++ [li]) (set_loc (lp_loc li) s))
             else ret tt) ;;;
            variables_set sym (VNum new_value)
      end
  end.

Definition reset_data_cursor : M unit := modify (set_data_it None).

Definition program_end : M unit := set_and_goto_immediate_line [].

Definition reset_runtime_state : M unit :=
  modify (set_breakpoint None) ;;;
  reset_data_cursor ;;;
  modify (set_functions []) ;;;
  modify (set_stack []) ;;;
  modify (set_loops []) ;;;
  program_end.

Definition run_from_first_numbered_line : M unit :=
  reset_runtime_state ;;;
  modify (fun s => match store_first s with
                   | Some n => set_loc (mkloc (Some n) 0) s
                   | None => s
                   end).

Definition goto_line_number (n : N) : M unit :=
  modify (set_breakpoint None) ;;;
  h <- get (store_has n) ;;
  if h then modify (set_loc (mkloc (Some n) 0)) else fail EUndefinedStatement.

Definition gosub_line_number (n : N) : M unit :=
  st <- get stack ;;
  if Nat.eqb (length st) stack_limit then fail EStackOverflow
  else
    ret_loc <- get loc ;;
    goto_line_number n ;;;
    modify (fun s => set_stack (stack s ++ [mkframe ret_loc []]) s).

Definition return_to_last_gosub : M unit :=
  modify (set_breakpoint None) ;;;
  st <- get stack ;;
  match rev st with
  | [] => fail EReturnWithoutGosub
  | fr :: rest => modify (fun s => set_loc (fr_ret fr) (set_stack (rev rest) s))
  end.

Definition define_function (name : bytes) (args : list bytes) : M unit :=
  l <- get loc ;;
  match loc_line l with
  | None =>
      (* HashMap::insert's argument is built first: try_into()? fails before the insert *)
      fail EIllegalDirect
  | Some n => modify (fun s => set_functions (alist_set name (mkfn args n (loc_idx l)) (functions s)) s)
  end.

Definition push_function_call (name : bytes) (bindings : list (bytes * value)) : M unit :=
  st <- get stack ;;
  if Nat.eqb (length st) stack_limit then fail EStackOverflow
  else
    l <- get loc ;;
    modify (set_stack (st ++ [mkframe l bindings])) ;;;
    fs <- get functions ;;
    match alist_get name fs with
    | Some d => modify (set_loc (mkloc (Some (fn_line d)) (fn_idx d)))
    | None => panic PFunctionMustExist
    end.

Definition pop_function_call : M unit :=
  st <- get stack ;;
  match rev st with
  | [] => panic PStackEmpty
  | fr :: rest => modify (fun s => set_loc (fr_ret fr) (set_stack (rev rest) s))
  end.

(* find_variable_value_in_stack: innermost (last) frame first *)
Fixpoint find_in_frames (name : bytes) (frames_top_first : list frame) : option value :=
  match frames_top_first with
  | [] => None
  | fr :: r => match alist_get name (fr_vars fr) with
               | Some v => Some v
               | None => find_in_frames name r
               end
  end.

Definition find_variable_value_in_stack (name : bytes) : M (option value) :=
  st <- get stack ;; ret (find_in_frames name (rev st)).

(* get_prev_location *)
Definition prev_location (l : location) : location := mkloc (loc_line l) (Nat.pred (loc_idx l)).

(* ProgramLines::data_iterator: all Data tokens in line order, then token order *)
Fixpoint data_chunks_of_line (n : N) (ts : list token) (i : nat) : list (location * list data_elem) :=
  match ts with
  | [] => []
  | TData d :: r => (mkloc (Some n) i, d) :: data_chunks_of_line n r (S i)
  | _ :: r => data_chunks_of_line n r (S i)
  end.

Fixpoint data_chunks (keys : list N) (toks : list (N * list token)) : res (list (location * list data_elem)) :=
  match keys with
  | [] => Ok []
  | n :: r =>
      match toks_get n toks with
      | None => Panic PListUnwrap
      | Some ts =>
          match data_chunks r toks with
          | Ok cs => Ok (data_chunks_of_line n ts 0 ++ cs)
          | other => other
          end
      end
  end.

(* DataIterator::next (data.rs:44-59) *)
Fixpoint data_next (fuel : nat) (d : data_iter) : option data_elem * data_iter :=
  match fuel with
  | O => (None, d)
  | S fuel' =>
      match nth_error (di_chunks d) (di_ci d) with
      | None => (None, d)
      | Some (_, items) =>
          match nth_error items (di_ii d) with
          | None => data_next fuel' (mkdi (di_chunks d) (S (di_ci d)) 0)
          | Some e => (Some e, mkdi (di_chunks d) (di_ci d) (S (di_ii d)))
          end
      end
  end.

Definition next_data_element : M (option data_elem) :=
  fun s =>
    let mk := match data_it s with
              | Some d => Ok d
              | None => match data_chunks (st_keys s) (st_toks s) with
                        | Ok cs => Ok (mkdi cs 0 0)
                        | Panic p => Panic p
                        | _ => Panic PListUnwrap
                        end
              end in
    match mk with
    | Ok d =>
        let '(e, d') := data_next (S (S (length (di_chunks d)))) d in
        (Ok e, set_data_it (Some d') s)
    | Panic p => (Panic p, s)
    | _ => (Panic PListUnwrap, s)
    end.

Definition get_data_location (s : interp) : option location :=
  match data_it s with
  | Some d => match nth_error (di_chunks d) (di_ci d) with
              | Some (l, _) => Some l
              | None => None
              end
  | None => None
  end.

(* populate_error_location (program.rs) *)
Definition populate_error_location (e : ierror) (l : option location) (s : interp) : option location :=
  match l with
  | Some _ => l
  | None =>
      match e with
      | EDataTypeMismatch => get_data_location s
      | _ => Some (prev_location (loc s))
      end
  end.

(* is_else_of_then_clause (program.rs): the token just consumed is an ELSE;
   is there a THEN before it on the line with no colon in between? *)
Fixpoint then_before (rev_prefix : list token) : bool :=
  match rev_prefix with
  | [] => false
  | TThen :: _ => true
  | TColon :: _ => false
  | _ :: r => then_before r
  end.

Definition is_else_of_then_clause : M bool :=
  ts <- cur_tokens ;;
  l <- get loc ;;
  ret (then_before (rev (firstn (Nat.pred (loc_idx l)) ts))).

Definition max_nesting : nat := N.to_nat MAX_NESTING.

Definition next_line : M bool :=
  l <- get loc ;;
  match loc_line l with
  | None => ret false
  | Some n =>
      a <- get (store_after n) ;;
      match a with
      | Some n' => modify (set_loc (mkloc (Some n') 0)) ;;; ret true
      | None => ret false
      end
  end.

Definition set_numbered_line (n : N) (ts : list token) : M unit :=
  modify (store_set n ts) ;;;
  modify (set_breakpoint None) ;;;
  reset_data_cursor ;;;
  modify (set_functions []) ;;;
  modify (set_stack []) ;;;
  modify (set_loops []) ;;;
  program_end.

(* ------------------------------------------------------------------ *)
(* Arrays (arrays.rs) *)

Definition max_dim_total : N := MAX_DIM_TOTAL_ELEMENTS.
Definition USIZE_MAX : N := 18446744073709551615.

(* DimArray::new: checked arithmetic, cap, then allocation *)
Definition dim_sizes (max_indices : list N) : list N := map (fun m => m + 1) max_indices.

Fixpoint checked_product (l : list N) (acc : N) : option N :=
  match l with
  | [] => Some acc
  | d :: r => if USIZE_MAX <? acc * d then None else checked_product r (acc * d)
  end.

Definition array_create_value (name : bytes) (max_indices : list N) : res arr :=
  match max_indices with
  | [] => Err EBadSubscript None
  | _ =>
      if existsb (fun m => USIZE_MAX <? m + 1) max_indices then Err EArrayTooLarge None
      else
        let dims := dim_sizes max_indices in
        match checked_product dims 1 with
        | None => Err EArrayTooLarge None
        | Some total =>
            if max_dim_total <? total then Err EArrayTooLarge None
            else
              let str := ends_with_dollar name in
              Ok (mkarr str dims (repeat (if str then VStr [] else VNum f64_zero) (N.to_nat total)))
        end
  end.

Definition lift_res {A} (r : res A) : M A := fun s => (r, s).

(* Arrays::create *)
Definition arrays_create (name : bytes) (max_indices : list N) : M unit :=
  ars <- get arrays ;;
  if alist_has name ars then fail ERedimensionedArray
  else
    a <- lift_res (array_create_value name max_indices) ;;
    modify (fun s => set_arrays (alist_set name a (arrays s)) s).

(* Arrays::maybe_create_default_array *)
Definition maybe_create_default_array (name : bytes) (dimensions : nat) : M unit :=
  ars <- get arrays ;;
  if alist_has name ars then ret tt
  else
    a <- lift_res (array_create_value name (repeat DEFAULT_ARRAY_SIZE dimensions)) ;;
    modify (fun s => set_arrays (alist_set name a (arrays s)) s).

(* DimArray::get_linear_index *)
Fixpoint linear_index (indices dims : list N) (acc stride : N) : option N :=
  match indices, dims with
  | [], _ => Some acc
  | _, [] => Some acc
  | i :: ir, d :: dr =>
      if d <=? i then None else linear_index ir dr (acc + i * stride) (stride * d)
  end.

Definition array_linear_index (a : arr) (indices : list N) : res N :=
  if negb (Nat.eqb (length indices) (length (ar_dims a))) then Err EBadSubscript None
  else match linear_index indices (ar_dims a) 0 1 with
       | Some i => Ok i
       | None => Err EBadSubscript None
       end.

Fixpoint list_update {A} (l : list A) (i : nat) (v : A) : list A :=
  match l, i with
  | [], _ => []
  | _ :: r, O => v :: r
  | x :: r, S i' => x :: list_update r i' v
  end.

(* Arrays::get_value_at_index *)
Definition arrays_get (name : bytes) (indices : list N) : M value :=
  maybe_create_default_array name (length indices) ;;;
  ars <- get arrays ;;
  match alist_get name ars with
  | None => panic PArrayUnwrap
  | Some a =>
      i <- lift_res (array_linear_index a indices) ;;
      match nth_error (ar_cells a) (N.to_nat i) with
      | Some v => ret v
      | None => panic PCellIndex
      end
  end.

(* Arrays::set_value_at_index *)
Definition arrays_set (name : bytes) (indices : list N) (v : value) : M unit :=
  if negb (type_matches name v) then fail ETypeMismatch
  else
    maybe_create_default_array name (length indices) ;;;
    ars <- get arrays ;;
    match alist_get name ars with
    | None => panic PArrayUnwrap
    | Some a =>
        (* ValueArray::set: value.try_into()? happens before the index check *)
        if negb (Bool.eqb (ar_str a) (match v with VStr _ => true | VNum _ => false end))
        then fail ETypeMismatch
        else
          i <- lift_res (array_linear_index a indices) ;;
          if Nat.ltb (N.to_nat i) (length (ar_cells a))
          then modify (fun s => set_arrays
                 (alist_set name (mkarr (ar_str a) (ar_dims a) (list_update (ar_cells a) (N.to_nat i) v))
                            (arrays s)) s)
          else panic PCellIndex
    end.

(* ------------------------------------------------------------------ *)
(* Random numbers (random.rs) *)

Definition lcg (s : N) : N := (MULTIPLIER * s + INCREMENT) mod MODULUS.

Definition latest_random (seed : N) : f64 :=
  f64_div (f64_of_Z (Z.of_N seed)) (f64_of_Z (Z.of_N MODULUS)).

(* Rng::rnd *)
Definition rng_rnd (x : f64) : M f64 :=
  if f64_ltb x f64_zero then fail EUnimplemented
  else if f64_eqb x f64_zero then (s <- get rng ;; ret (latest_random s))
  else
    modify (fun s => set_rng (lcg (rng s)) s) ;;;
    s <- get rng ;; ret (latest_random s).

(* Rng::new (after the seeding fix: reduced modulo MODULUS) *)
Definition rng_new (seed : N) : N := seed mod MODULUS.

(* ------------------------------------------------------------------ *)
(* Output *)

Definition push_output (o : output) : M unit :=
  modify (fun s => set_outputs (outputs s ++ [o]) s).

Definition warn (msg : bytes) : M unit :=
  w <- get enable_warnings ;;
  if w then (l <- get_line_number ;; push_output (OWarning msg l)) else ret tt.

Definition maybe_warn_undeclared_array (name : bytes) : M unit :=
  w <- get enable_warnings ;;
  ars <- get arrays ;;
  if w && negb (alist_has name ars)
  then warn (bs "Use of undeclared array '" ++ name ++ bs "'.")
  else ret tt.
