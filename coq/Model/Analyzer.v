(* Analyzer.v — the static analyzer: abasic-core/src/analyzer/*.rs.
   The analyzer is a fork of the two evaluators that walks the same token
   cursor (program.rs) but computes kinds (String / Number) instead of values
   and records symbol accesses.  The program part of [interp] is reused as the
   analyzer's [Program]. *)
From Coq Require Import List NArith ZArith Bool Lia.
From Abasic Require Import Model.Bytes Model.Num Model.Token Model.Data Model.Lexer Gen.Tables
     Model.State Model.Eval Model.Interp.
Import ListNotations.
Open Scope N_scope.

Inductive vtype := TyString | TyNumber.

Definition vtype_eqb (a b : vtype) : bool :=
  match a, b with TyString, TyString => true | TyNumber, TyNumber => true | _, _ => false end.

Definition type_of_name (name : bytes) : vtype := if ends_with_dollar name then TyString else TyNumber.

(* symbol_access.rs: (symbol, location, is_write) in logging order *)
Definition access := (bytes * location * bool)%type.

Definition astate := (interp * list access)%type.
Definition MA (A : Type) := astate -> res A * astate.

Definition aret {A} (a : A) : MA A := fun s => (Ok a, s).
Definition abind {A B} (m : MA A) (f : A -> MA B) : MA B :=
  fun s => match m s with
           | (Ok a, s') => f a s'
           | (Err e l, s') => (Err e l, s')
           | (Panic p, s') => (Panic p, s')
           | (OutOfFuel, s') => (OutOfFuel, s')
           | (OracleMiss, s') => (OracleMiss, s')
           end.
Notation "x <-- m ;; f" := (abind m (fun x => f)) (at level 61, m at next level, right associativity).
Notation "m ;;;; f" := (abind m (fun _ => f)) (at level 61, right associativity).

Definition lift {A} (m : M A) : MA A :=
  fun s => let '(r, p) := m (fst s) in (r, (p, snd s)).
Definition afail {A} (e : ierror) : MA A := fun s => (Err e None, s).
Definition log_access (sym : bytes) (l : location) (w : bool) : MA unit :=
  fun s => (Ok tt, (fst s, snd s ++ [(sym, l, w)])).
Definition aget_loc : MA location := lift (get loc).
Definition prev_loc : MA location := l <-- aget_loc ;; aret (prev_location l).

Fixpoint arepeat {S R} (n : nat) (body : S -> MA (S + R)) (acc : S) : MA R :=
  match n with
  | O => fun s => (OutOfFuel, s)
  | S n' => abind (body acc) (fun r =>
              match r with
              | inl acc' => arepeat n' body acc'
              | inr r => aret r
              end)
  end.

(* value_type.rs *)
Definition check (t expected : vtype) : MA vtype :=
  if vtype_eqb t expected then aret expected else afail ETypeMismatch.
Definition check_number (t : vtype) : MA vtype := check t TyNumber.

(* ------------------------------------------------------------------ *)
(* expression_analyzer.rs *)
Section AExpression.
  Variable fuel : nat.
  Variable rec : MA vtype.

  Definition an_array_index : MA nat :=
    lift (expect_next_token TLeftParen) ;;;;
    n <-- arepeat fuel (fun arity : nat =>
            t <-- rec ;; check_number t ;;;;
            c <-- lift (accept_next_token TComma) ;;
            aret (if c then inl (S arity) else inr (S arity))) 0%nat ;;
    lift (expect_next_token TRightParen) ;;;;
    aret n.

  Definition an_unary_number_function_arg : MA vtype :=
    lift (expect_next_token TLeftParen) ;;;;
    t <-- rec ;; r <-- check_number t ;;
    lift (expect_next_token TRightParen) ;;;;
    aret r.

  Fixpoint an_check_arguments (args : list bytes) (i arity : nat) : MA unit :=
    match args with
    | [] => aret tt
    | a :: r =>
        t <-- rec ;;
        check t (type_of_name a) ;;;;
        (if Nat.ltb i (Nat.pred arity) then lift (expect_next_token TComma) else aret tt) ;;;;
        an_check_arguments r (S i) arity
    end.

  Definition an_user_function_call (name : bytes) (l : location) : MA (option vtype) :=
    fs <-- lift (get functions) ;;
    match alist_get name fs with
    | None => aret None
    | Some d =>
        log_access name l false ;;;;
        lift (expect_next_token TLeftParen) ;;;;
        an_check_arguments (fn_args d) 0 (length (fn_args d)) ;;;;
        lift (expect_next_token TRightParen) ;;;;
        aret (Some (type_of_name name))
    end.

  Definition an_function_call (name : bytes) (l : location) : MA (option vtype) :=
    if bytes_eqb name (bs "ABS") || bytes_eqb name (bs "INT") || bytes_eqb name (bs "RND") then
      t <-- an_unary_number_function_arg ;; aret (Some t)
    else an_user_function_call name l.

  Definition an_term : MA vtype :=
    t <-- lift next_unwrapped_token ;;
    match t with
    | TString _ => aret TyString
    | TNumber _ => aret TyNumber
    | TSymbol sym =>
        l <-- prev_loc ;;
        p <-- lift (peek_is TLeftParen) ;;
        if p then
          fv <-- an_function_call sym l ;;
          match fv with
          | Some v => aret v
          | None =>
              an_array_index ;;;;
              log_access sym l false ;;;;
              aret (type_of_name sym)
          end
        else log_access sym l false ;;;; aret (type_of_name sym)
    | _ => afail EUnexpectedToken
    end.

  Definition an_paren : MA vtype :=
    p <-- lift (accept_next_token TLeftParen) ;;
    if p then (v <-- rec ;; lift (expect_next_token TRightParen) ;;;; aret v) else an_term.

  Definition an_unary : MA vtype :=
    op <-- lift (try_next_token unary_of_token) ;;
    v <-- an_paren ;;
    match op with
    | Some UPositive => aret v
    | Some UNegative => check_number v
    | Some UNot => aret TyNumber
    | None => aret v
    end.

  (* a binary tier: value = operand; while op: second = operand; step value second *)
  Definition an_tier {O} (get_op : MA (option O)) (operand : MA vtype)
             (step : vtype -> vtype -> MA vtype) : MA vtype :=
    v0 <-- operand ;;
    arepeat fuel (fun v =>
      o <-- get_op ;;
      match o with
      | None => aret (inr v)
      | Some _ => w <-- operand ;; v' <-- step v w ;; aret (inl v')
      end) v0.

  Definition both_numbers (v w : vtype) : MA vtype := check_number v ;;;; check_number w ;;;; aret v.
  Definition an_accept_as (t : token) : MA (option unit) :=
    b <-- lift (accept_next_token t) ;; aret (if b then Some tt else None).

  Definition an_exponent : MA vtype := an_tier (an_accept_as TCaret) an_unary both_numbers.
  Definition an_muldiv : MA vtype := an_tier (lift (try_next_token muldiv_of_token)) an_exponent both_numbers.
  Definition an_addsub : MA vtype := an_tier (lift (try_next_token addsub_of_token)) an_muldiv both_numbers.
  Definition an_equality : MA vtype :=
    an_tier (lift (try_next_token eq_of_token)) an_addsub (fun v w => check v w ;;;; aret TyNumber).
  Definition an_and : MA vtype := an_tier (an_accept_as TAnd) an_equality (fun _ _ => aret TyNumber).
  Definition an_or : MA vtype := an_tier (an_accept_as TOr) an_and (fun _ _ => aret TyNumber).
End AExpression.

Definition enter_nesting (n : nat) : MA unit :=
  if Nat.eqb n max_nesting then afail EStackOverflow else aret tt.

Fixpoint analyze_expression (fuel : nat) (n : nat) : MA vtype :=
  match fuel with
  | O => fun s => (OutOfFuel, s)
  | S f => if Nat.eqb n max_nesting then afail EStackOverflow
           else an_or f (analyze_expression f (S n))
  end.

(* ------------------------------------------------------------------ *)
(* statement_analyzer.rs *)
Record alvalue := mkalv { alv_sym : bytes; alv_loc : location; alv_arity : option nat }.

Section AStatement.
  Variable fuel : nat.
  Variable nest : nat.
  Variable rec_stmt : MA unit.

  Definition aexpr : MA vtype := analyze_expression fuel nest.

  Definition an_optional_array_index : MA (option nat) :=
    p <-- lift (peek_is TLeftParen) ;;
    if negb p then aret None else (n <-- an_array_index fuel aexpr ;; aret (Some n)).

  Definition an_goto_or_gosub : MA unit :=
    t <-- lift next_token ;;
    match t with
    | Some (TNumber x) =>
        h <-- lift (get (store_has (Z.to_N (f64_to_u64_sat x)))) ;;
        if h then aret tt else afail EUndefinedStatement
    | _ => afail EUndefinedStatement
    end.

  Definition an_statement_or_goto : MA unit :=
    t <-- lift peek_next_token ;;
    match t with
    | Some (TNumber _) => an_goto_or_gosub
    | _ => rec_stmt
    end.

  Definition an_if : MA unit :=
    aexpr ;;;;
    lift (expect_next_token TThen) ;;;;
    an_statement_or_goto ;;;;
    e <-- lift (accept_next_token TElse) ;;
    if e then an_statement_or_goto else aret tt.

  Definition an_assign (lv : alvalue) (t : vtype) : MA unit :=
    log_access (alv_sym lv) (alv_loc lv) true ;;;;
    check (type_of_name (alv_sym lv)) t ;;;; aret tt.

  Definition an_assignment (sym : bytes) : MA unit :=
    l <-- prev_loc ;;
    ar <-- an_optional_array_index ;;
    lift (expect_next_token TEquals) ;;;;
    t <-- aexpr ;;
    an_assign (mkalv sym l ar) t.

  Definition an_let : MA unit :=
    t <-- lift next_token ;;
    match t with
    | Some (TSymbol sym) => an_assignment sym
    | _ => afail EUnexpectedToken
    end.

  Definition an_parse_lvalue : MA alvalue :=
    t <-- lift next_token ;;
    match t with
    | Some (TSymbol sym) =>
        l <-- prev_loc ;;
        ar <-- an_optional_array_index ;;
        aret (mkalv sym l ar)
    | _ => afail EUnexpectedToken
    end.

  Definition an_read : MA unit :=
    arepeat fuel (fun _ : unit =>
      lv <-- an_parse_lvalue ;;
      an_assign lv (type_of_name (alv_sym lv)) ;;;;
      c <-- lift (accept_next_token TComma) ;;
      aret (if c then inl tt else inr tt)) tt.

  Definition an_input : MA unit :=
    lv <-- an_parse_lvalue ;; log_access (alv_sym lv) (alv_loc lv) true.

  Definition an_dim : MA unit :=
    lv <-- an_parse_lvalue ;; log_access (alv_sym lv) (alv_loc lv) true.

  Definition an_print : MA unit :=
    arepeat fuel (fun _ : unit =>
      t <-- lift peek_next_token ;;
      match t with
      | None => aret (inr tt)
      | Some TColon => aret (inr tt)
      | Some TElse => aret (inr tt)
      | Some TSemicolon => lift next_token ;;;; aret (inl tt)
      | Some TComma => lift next_token ;;;; aret (inl tt)
      | Some _ => aexpr ;;;; aret (inl tt)
      end) tt.

  Definition an_for : MA unit :=
    t <-- lift next_token ;;
    match t with
    | Some (TSymbol sym) =>
        l <-- prev_loc ;;
        log_access sym l true ;;;;
        check_number (type_of_name sym) ;;;;
        lift (expect_next_token TEquals) ;;;;
        a <-- aexpr ;; check_number a ;;;;
        lift (expect_next_token TTo) ;;;;
        b <-- aexpr ;; check_number b ;;;;
        st <-- lift (accept_next_token TStep) ;;
        if st then (c <-- aexpr ;; check_number c ;;;; aret tt) else aret tt
    | _ => afail EUnexpectedToken
    end.

  Definition an_next : MA unit :=
    t <-- lift next_token ;;
    match t with
    | Some (TSymbol sym) =>
        l <-- prev_loc ;;
        log_access sym l false ;;;;
        check_number (type_of_name sym) ;;;; aret tt
    | _ => afail EUnexpectedToken
    end.

  Definition an_def : MA unit :=
    t <-- lift next_token ;;
    match t with
    | Some (TSymbol name) =>
        l <-- prev_loc ;;
        log_access name l true ;;;;
        lift (expect_next_token TLeftParen) ;;;;
        args <-- arepeat fuel (fun acc : list bytes =>
                  a <-- lift next_token ;;
                  match a with
                  | Some (TSymbol arg) =>
                      let acc' := acc ++ [arg] in
                      d <-- lift next_token ;;
                      match d with
                      | Some TComma => aret (inl acc')
                      | Some TRightParen => aret (inr acc')
                      | _ => afail EUnexpectedToken
                      end
                  | _ => afail EUnexpectedToken
                  end) [] ;;
        lift (expect_next_token TEquals) ;;;;
        lift (define_function name args) ;;;;
        b <-- aexpr ;;
        check b (type_of_name name) ;;;; aret tt
    | _ => afail EUnexpectedToken
    end.

  Definition an_statement_body : MA unit :=
    t <-- lift next_token ;;
    match t with
    | Some TStop => aret tt
    | Some TDim => an_dim
    | Some TPrint | Some TQuestionMark => an_print
    | Some TInput => an_input
    | Some TIf => an_if
    | Some TGoto | Some TGosub => an_goto_or_gosub
    | Some TReturn => aret tt
    | Some TEnd => aret tt
    | Some TFor => an_for
    | Some TNext => an_next
    | Some TRestore => lift reset_data_cursor
    | Some TDef => an_def
    | Some TRead => an_read
    | Some (TRemark _) => aret tt
    | Some TColon => aret tt
    | Some (TData _) => aret tt
    | Some TLet => an_let
    | Some (TSymbol sym) => an_assignment sym
    | Some _ => afail EUnexpectedToken
    | None => aret tt
    end.
End AStatement.

Fixpoint analyze_statement (fuel : nat) (n : nat) : MA unit :=
  match fuel with
  | O => fun s => (OutOfFuel, s)
  | S f => if Nat.eqb n max_nesting then afail EStackOverflow
           else an_statement_body f (S n) (analyze_statement f (S n))
  end.

(* ------------------------------------------------------------------ *)
(* source_map.rs *)
Record line_ranges := mkranges {
  lr_number_end : nat;
  lr_token_ranges : option (list (nat * nat));
  lr_error_range : option (nat * nat);
  lr_length : nat }.

Definition empty_ranges : line_ranges := mkranges 0 None None 0.

Record source_map := mkmap {
  sm_lines : list (N * nat);            (* basic_lines_to_file_lines (latest binding first) *)
  sm_ranges : list line_ranges }.       (* file_line_ranges *)

Fixpoint sm_lookup (n : N) (l : list (N * nat)) : option nat :=
  match l with
  | [] => None
  | (k, v) :: r => if k =? n then Some v else sm_lookup n r
  end.

(* map_location_to_source *)
Definition map_location_to_source (m : source_map) (l : location) : option (nat * (nat * nat)) :=
  match loc_line l with
  | None => None
  | Some n =>
      match sm_lookup n (sm_lines m) with
      | None => None
      | Some fl =>
          match nth_error (sm_ranges m) fl with
          | None => None                      (* Rust: index panic; unreachable: fl < len *)
          | Some lr =>
              match lr_token_ranges lr with
              | None => None
              | Some trs =>
                  let idx := if Nat.eqb (loc_idx l) (length trs) && negb (Nat.eqb (length trs) 0)
                             then Nat.pred (length trs) else loc_idx l in
                  match nth_error trs idx with
                  | Some r => Some (fl, r)
                  | None => None
                  end
              end
          end
      end
  end.

Inductive message :=
| MWarning (file_line : nat) (l : option location) (text : bytes)
| MError (file_line : nat) (e : ierror) (l : option location).

(* map_to_source; [None] where the Rust would index out of bounds is
   unreachable (file lines of messages are < number of file lines) *)
Definition map_to_source (m : source_map) (msg : message) : option (nat * (nat * nat)) :=
  match msg with
  | MWarning fl (Some l) _ => map_location_to_source m l
  | MWarning fl None _ =>
      match nth_error (sm_ranges m) fl with
      | Some lr => Some (fl, (0%nat, lr_number_end lr))
      | None => None
      end
  | MError fl (ESyntaxTok t) _ =>
      match nth_error (sm_ranges m) fl with
      | Some lr =>
          match lr_error_range lr with
          | Some r => Some (fl, r)
          | None => Some (fl, error_range t (lr_length lr))
          end
      | None => None
      end
  | MError fl _ (Some l) => map_location_to_source m l
  | MError fl _ None => None
  end.

(* ------------------------------------------------------------------ *)
(* source_file_analyzer.rs *)
Record analysis := mkanalysis {
  an_nlines : nat;
  an_tokens : list (list (N * (nat * nat)));      (* per file line: (token class, range) *)
  an_messages : list message;
  an_map : source_map;
  an_program : interp;
  an_result : res unit }.                          (* Panic = the analyzer panicked *)

(* split on LF only *)
Fixpoint split_lines_aux (s : bytes) (cur : bytes) : list bytes :=
  match s with
  | [] => [rev cur]
  | b :: r => if b =? 10 then rev cur :: split_lines_aux r [] else split_lines_aux r (b :: cur)
  end.
Definition split_lines (s : bytes) : list bytes := split_lines_aux s [].

(* widen the end of a range to a character boundary *)
Fixpoint widen_end (fuel : nat) (line : bytes) (e : nat) : nat :=
  match fuel with
  | O => e
  | S f => if char_boundary line e then e else widen_end f line (S e)
  end.

Record pass1 := mkpass1 {
  p_prog : interp; p_msgs : list message; p_map : source_map; p_toks : list (list (N * (nat * nat))) }.

Definition number_class : N := 2.

Definition pass1_line (i : nat) (line : bytes) (p : pass1) : pass1 :=
  let add_empty := mkmap (sm_lines (p_map p)) (sm_ranges (p_map p) ++ [empty_ranges]) in
  match line with
  | [] => mkpass1 (p_prog p) (p_msgs p) add_empty (p_toks p ++ [[]])
  | _ =>
    match parse_line_number line with
    | None => mkpass1 (p_prog p) (p_msgs p ++ [MWarning i None (bs "Line has no line number, ignoring it.")])
                      add_empty (p_toks p ++ [[]])
    | Some (n, e) =>
        let lt0 := [(number_class, (0%nat, e))] in
        let msgs0 := if store_has n (p_prog p)
                     then p_msgs p ++ [MWarning i None (bs "Redefinition of pre-existing BASIC line.")]
                     else p_msgs p in
        let fl := length (sm_ranges (p_map p)) in
        match tokenize line e with
        | TokOk ts =>
            let lt := lt0 ++ map (fun tr => (token_class (fst tr), snd tr)) ts in
            let lr := mkranges e (Some (map snd ts)) None (length line) in
            match ts with
            | [] =>
                mkpass1 (p_prog p)
                        (msgs0 ++ [MWarning i None (bs "Line contains no statements and will not be defined.")])
                        (mkmap (sm_lines (p_map p)) (sm_ranges (p_map p) ++ [lr]))
                        (p_toks p ++ [lt])
            | _ =>
                mkpass1 (snd (set_numbered_line n (map fst ts) (p_prog p)))
                        msgs0
                        (mkmap ((n, fl) :: sm_lines (p_map p)) (sm_ranges (p_map p) ++ [lr]))
                        (p_toks p ++ [lt])
            end
        | TokErr _ err =>
            let '(a, b) := error_range err (length line) in
            let lr := mkranges e None (Some (a, widen_end 4 line b)) (length line) in
            mkpass1 (p_prog p) (msgs0 ++ [MError i (ESyntaxTok err) None])
                    (mkmap (sm_lines (p_map p)) (sm_ranges (p_map p) ++ [lr]))
                    (p_toks p ++ [lt0])
        end
    end
  end.

Fixpoint pass1_lines (i : nat) (lines : list bytes) (p : pass1) : pass1 :=
  match lines with
  | [] => p
  | l :: r => pass1_lines (S i) r (pass1_line i l p)
  end.

(* the walk over the stored lines (the [loop] in run) *)
Inductive walk_result := WalkDone (msgs : list message) (st : astate) | WalkPanic (msgs : list message) (st : astate) | WalkStarved.

Fixpoint walk_line (fuel stmts : nat) (m : source_map) (st : astate) : res (option message) * astate :=
  (* returns Ok None when the line is exhausted, Ok (Some msg) on an error (line abandoned) *)
  match stmts with
  | O => (OutOfFuel, st)
  | S k =>
      match has_next_token (fst st) with
      | (Ok true, p1) =>
          match analyze_statement fuel 0 (p1, snd st) with
          | (Ok _, st') => walk_line fuel k m st'
          | (Err e l, st') =>
              let l' := populate_error_location e l (fst st') in
              match l' with
              | None => (Panic PUnwrapLine, st')                  (* err.location.unwrap() *)
              | Some l0 =>
                  match map_location_to_source m l0 with
                  | Some (fl, _) => (Ok (Some (MError fl e l')), st')
                  | None => (Panic PFunctionMustExist, st')       (* the explicit panic! *)
                  end
              end
          | (Panic p, st') => (Panic p, st')
          | (OutOfFuel, st') => (OutOfFuel, st')
          | (OracleMiss, st') => (OracleMiss, st')
          end
      | (Ok false, p1) => (Ok None, (p1, snd st))
      | (Err e l, p1) => (Panic PUnwrapLine, (p1, snd st))
      | (Panic p, p1) => (Panic p, (p1, snd st))
      | (OutOfFuel, p1) => (OutOfFuel, (p1, snd st))
      | (OracleMiss, p1) => (OracleMiss, (p1, snd st))
      end
  end.

Fixpoint walk_lines (fuel nlines : nat) (m : source_map) (msgs : list message) (st : astate)
  : res unit * list message * astate :=
  match nlines with
  | O => (OutOfFuel, msgs, st)
  | S k =>
      let stmts := S (length (match fst (cur_tokens (fst st)) with Ok ts => ts | _ => [] end)) in
      match walk_line fuel stmts m st with
      | (Ok om, st') =>
          let msgs' := match om with Some msg => msgs ++ [msg] | None => msgs end in
          match next_line (fst st') with
          | (Ok true, p1) => walk_lines fuel k m msgs' (p1, snd st')
          | (Ok false, p1) => (Ok tt, msgs', (p1, snd st'))
          | (_, p1) => (Panic PUnwrapLine, msgs', (p1, snd st'))
          end
      | (Panic p, st') => (Panic p, msgs, st')
      | (OutOfFuel, st') => (OutOfFuel, msgs, st')
      | (_, st') => (Panic PUnwrapLine, msgs, st')
      end
  end.

(* symbol_access.rs get_warnings: per symbol, never read / never written *)
Fixpoint symbols_of (acc : list access) (seen : list bytes) : list bytes :=
  match acc with
  | [] => rev seen
  | (sym, _, _) :: r =>
      if existsb (bytes_eqb sym) seen then symbols_of r seen else symbols_of r (sym :: seen)
  end.

Definition accesses_of (sym : bytes) (w : bool) (acc : list access) : list location :=
  map (fun a => snd (fst a)) (filter (fun a => bytes_eqb (fst (fst a)) sym && Bool.eqb (snd a) w) acc).

Definition symbol_warnings (acc : list access) : list (bytes * location * bool (* unused? *)) :=
  flat_map (fun sym =>
    let ws := accesses_of sym true acc in
    let rs := accesses_of sym false acc in
    match rs, ws with
    | [], _ :: _ => map (fun l => (sym, l, true)) ws
    | _ :: _, [] => map (fun l => (sym, l, false)) rs
    | _, _ => []
    end) (symbols_of acc []).

Definition symbol_message (m : source_map) (w : bytes * location * bool) : option message :=
  let '(sym, l, unused) := w in
  match map_location_to_source m l with
  | Some (fl, _) =>
      Some (MWarning fl (Some l)
              ([39] ++ sym ++ (if unused then bs "' is never used." else bs "' is never defined.")))
  | None => None                                            (* .unwrap() *)
  end.

Fixpoint symbol_messages (m : source_map) (ws : list (bytes * location * bool)) : option (list message) :=
  match ws with
  | [] => Some []
  | w :: r => match symbol_message m w, symbol_messages m r with
              | Some x, Some xs => Some (x :: xs)
              | _, _ => None
              end
  end.

Definition analyze (fuel : nat) (text : bytes) : analysis :=
  let lines := split_lines text in
  let p := pass1_lines 0 lines (mkpass1 init_interp [] (mkmap [] []) []) in
  let prog0 := snd (run_from_first_numbered_line (p_prog p)) in
  let '(r, msgs, st) := walk_lines fuel (S (length (st_keys prog0))) (p_map p) (p_msgs p) (prog0, []) in
  match r with
  | Ok _ =>
      match symbol_messages (p_map p) (symbol_warnings (snd st)) with
      | Some sm => mkanalysis (length lines) (p_toks p) (msgs ++ sm) (p_map p) (fst st) (Ok tt)
      | None => mkanalysis (length lines) (p_toks p) msgs (p_map p) (fst st) (Panic PUnwrapLine)
      end
  | other => mkanalysis (length lines) (p_toks p) msgs (p_map p) (fst st) other
  end.

(* into_interpreter: reset_runtime_state, default interpreter around the program *)
Definition into_interpreter (a : analysis) : interp := snd (reset_runtime_state (an_program a)).

(* ------------------------------------------------------------------ *)
(* canonical rendering (harness command `analyze`) *)
Definition class_name (c : N) : bytes :=
  bs (nth (N.to_nat c) ["Symbol"; "String"; "Number"; "Operator"; "Comment"; "Keyword"; "Delimiter"; "Data"] "?")%string.

Definition canon_opt_loc (l : option location) : bytes :=
  match l with None => bs "none" | Some l => show_location l end.

Definition canon_mapped (r : option (nat * (nat * nat))) : bytes :=
  match r with
  | None => bs "none"
  | Some (fl, (a, b)) => show_nat fl ++ [46] ++ show_nat a ++ [45] ++ show_nat b
  end.

Definition canon_message (m : source_map) (msg : message) : bytes :=
  (match msg with
   | MWarning fl l text => bs "W@" ++ show_nat fl ++ [64] ++ canon_opt_loc l ++ [64] ++ esc text
   | MError fl e l => bs "E@" ++ show_nat fl ++ [64] ++ debug_error e ++ [64] ++ canon_opt_loc l ++ [64]
                      ++ esc (display_error e l)
   end) ++ [64] ++ canon_mapped (map_to_source m msg).

Definition canon_line_tokens (ts : list (N * (nat * nat))) : bytes :=
  join [44] (map (fun t => class_name (fst t) ++ [64] ++ show_nat (fst (snd t)) ++ [45] ++ show_nat (snd (snd t))) ts).

(* messages: the per-line and walk messages in order, then the symbol warnings
   sorted (their order is a HashMap iteration order in the Rust) *)
Definition is_symbol_warning (msg : message) : bool :=
  match msg with MWarning _ (Some _) _ => true | _ => false end.

Definition canon_analysis (a : analysis) : bytes :=
  match an_result a with
  | Ok _ =>
      let ms := an_messages a in
      let plain := filter (fun m => negb (is_symbol_warning m)) ms in
      let syms := filter is_symbol_warning ms in
      bs "ok" ++ [9] ++ show_nat (an_nlines a) ++ [9]
      ++ join [59] (map (canon_message (an_map a)) plain ++ sort_bytes (map (canon_message (an_map a)) syms))
      ++ [9] ++ join [59] (map canon_line_tokens (an_tokens a))
  | Panic p => bs "panic:" ++ show_panic p
  | OutOfFuel => bs "MODEL-OUT-OF-FUEL"
  | _ => bs "MODEL-ERROR"
  end.
