(* C02 — Expressions evaluate per the language's precedence, associativity
   and typing.  Statements only; proofs are in Proofs/ExprSem.v.

   [expr]     : syntax trees (numbers, strings, variables, one unary +/-/NOT,
                the 13 binary operators, ABS, INT, redundant parentheses);
   [den s e]  : the strict left-to-right fold of the tree in IEEE-754 double
                arithmetic (defined directly, independent of the token walker);
   [Renders 0 e ts] : [ts] is a token spelling of [e] the grammar admits:
                left operand at the operator's own tier, right operand one
                tier tighter (left grouping), tiers OR < AND < comparisons <
                + - < * / < ^ < unary < atom, parentheses anywhere. *)
From Coq Require Import List NArith ZArith Bool.
From Abasic Require Import Model.Bytes Model.Num Model.Token Model.Data Model.Lexer Gen.Tables
     Model.State Model.Eval Model.Interp Proofs.ExprSem.
Import ListNotations.
Local Open Scope nat_scope.

(* The token walker computes exactly the fold: same value, or the same error
   kind (TYPE MISMATCH, DIVISION BY ZERO, ...), for EVERY tree and EVERY legal
   spelling, from every state and cursor position; on success the cursor is
   right after the expression; nothing else in the state changes (warnings off;
   C02_expr_gen is the version with warnings on). *)
Theorem C02_expr : forall e ts, Renders 0 e ts ->
  forall s pre rest n, enable_warnings s = false ->
    fst (cur_tokens s) = Ok (pre ++ ts ++ rest) -> loc_idx (loc s) = length pre ->
    stops 0 rest = true ->
    n + pdepth e < max_nesting ->
  exists fuel0, forall fuel, fuel0 <= fuel ->
    let '(r, s') := evaluate_expression fuel n s in
    r = den s e
    /\ (forall v, r = Ok v ->
          s' = set_reads (reads s')
                 (set_loc (mkloc (loc_line (loc s)) (length pre + length ts)) s))
    /\ set_reads 0 (set_loc (loc s) s') = set_reads 0 s.
Proof. exact expr_sem. Qed.
Check C02_expr : forall e ts, Renders 0 e ts ->
  forall s pre rest n, enable_warnings s = false ->
    fst (cur_tokens s) = Ok (pre ++ ts ++ rest) -> loc_idx (loc s) = length pre ->
    stops 0 rest = true -> n + pdepth e < max_nesting ->
  exists fuel0, forall fuel, fuel0 <= fuel ->
    let '(r, s') := evaluate_expression fuel n s in
    r = den s e
    /\ (forall v, r = Ok v ->
          s' = set_reads (reads s') (set_loc (mkloc (loc_line (loc s)) (length pre + length ts)) s))
    /\ set_reads 0 (set_loc (loc s) s') = set_reads 0 s.

(* redundant parentheses never change a result *)
Theorem C02_parens_den : forall s e1 e2, erase_parens e1 = erase_parens e2 -> den s e1 = den s e2.
Proof. exact den_parens. Qed.

Theorem C02_parens : forall e1 e2 ts1 ts2,
  Renders 0 e1 ts1 -> Renders 0 e2 ts2 -> erase_parens e1 = erase_parens e2 ->
  forall s1 s2 pre1 pre2 rest1 rest2 n1 n2,
    variables s1 = variables s2 -> stack s1 = stack s2 -> pow_oracle s1 = pow_oracle s2 ->
    fst (cur_tokens s1) = Ok (pre1 ++ ts1 ++ rest1) -> loc_idx (loc s1) = length pre1 ->
    stops 0 rest1 = true -> n1 + pdepth e1 < max_nesting ->
    fst (cur_tokens s2) = Ok (pre2 ++ ts2 ++ rest2) -> loc_idx (loc s2) = length pre2 ->
    stops 0 rest2 = true -> n2 + pdepth e2 < max_nesting ->
  exists fuel0, forall fuel, fuel0 <= fuel ->
    fst (evaluate_expression fuel n1 s1) = fst (evaluate_expression fuel n2 s2).
Proof. exact expr_parens. Qed.

(* the quantifier is not vacuous: every tree has a legal spelling with the
   same denotation *)
Theorem C02_every_tree : forall e,
  exists e' ts, erase_parens e' = erase_parens e /\ Renders 0 e' ts /\ forall s, den s e' = den s e.
Proof. exact every_tree_spelled. Qed.

(* `^` is f64::powf, an oracle on both sides: the theorem fixes only where it
   sits in the tree.  Function calls, RND and array cells are outside [expr]
   (exercised by the correspondence and by C03's oracle). *)

Print Assumptions C02_expr.
Print Assumptions C02_parens_den.
Print Assumptions C02_parens.
Print Assumptions C02_every_tree.
