(* C14 — LIST output reloads to the same program.
   Statements only; proofs are in Proofs/ListProofs.v.

   [listing s] are the lines LIST prints for the stored program (number, a
   blank, the canonical token spellings joined by single blanks), [edit_of l]
   is what entering line [l] stores (number and tokens), [line_roundtrips n ts]
   says the listing text of line n is an edit storing exactly [ts] under [n]. *)
From Coq Require Import List NArith ZArith Bool.
From Abasic Require Import Model.Bytes Model.Num Model.Token Model.Data Model.Lexer Gen.Tables
     Model.State Model.Eval Model.Interp Proofs.Monad Proofs.Frames Proofs.StoreProofs Proofs.ResetProofs
     Proofs.ListProofs Proofs.StoreExt Proofs.StoreBehaviour.
Import ListNotations.
Local Open Scope N_scope.

(* From lines to programs: for EVERY stored program whose lines round-trip,
   entering the LIST output into a fresh interpreter gives a program with the
   same line numbers and the same tokens on every line ... *)
Theorem C14_reload_store : forall fuel oracle s,
  store_ok s ->
  (forall n ts, abs s n = Some ts -> line_roundtrips n ts) ->
  let s' := run_state fuel (fresh oracle) (map HLine (listing s)) in
  (forall k, abs s' k = abs s k) /\ st_keys s' = st_keys s /\ store_ok s'.
Proof. exact reload_store. Qed.

(* ... and the identical listing: LIST is a fixed point. *)
Theorem C14_list_fixpoint : forall fuel oracle s,
  store_ok s ->
  (forall n ts, abs s n = Some ts -> line_roundtrips n ts) ->
  let s' := run_state fuel (fresh oracle) (map HLine (listing s)) in
  list_lines (st_keys s') (st_toks s') = list_lines (st_keys s) (st_toks s)
  /\ listing s' = listing s.
Proof. exact reload_listing. Qed.

Theorem C14_listing_is_list : forall s, store_ok s ->
  list_lines (st_keys s) (st_toks s) = Ok (map (fun l => l ++ [10]) (listing s)).
Proof. exact listing_is_list_output. Qed.

(* ... and the identical behaviour under RUN: the original interpreter (any
   idle state holding the program, its output queue drained) and a fresh one
   into which the LIST output was typed, put into the same flag setting and
   given the same seed, answer RUN and EVERY later host operation with the
   same rows — outcome (errors and their lines), interpreter state (input
   requests), the drained output queue (everything printed, hence every DATA
   item a program reads and prints), caret, message, reads.  The reloaded
   store need not be the same list as the original one (its internal order
   depends on the order of entry); Proofs/StoreExt.v shows that the
   interpreter cannot tell. *)
Theorem C14_reload_behaves_alike : forall fuel s w b seed ops,
  state s = Idle -> outputs s = [] -> store_ok s ->
  (forall n ts, abs s n = Some ts -> line_roundtrips n ts) ->
  let s' := run_state fuel (fresh (pow_oracle s)) (map HLine (listing s)) in
  let session := HFlags w b :: HRand seed :: HLine (bs "RUN") :: ops in
  Forall2 orow_same (run_ops fuel s session) (run_ops fuel s' session).
Proof. exact reload_behaves_alike. Qed.

(* non-vacuity of the hypotheses: a program with DATA typed into a fresh interpreter *)
Example C14_behaves_example :
  let s := run_state 50 (fresh []) (map (fun t => HLine (bs t)) ["20 READ A : PRINT A;"; "10 DATA 7, ""x y"""]%string) in
  state s = Idle /\ outputs s = [] /\ store_ok s
  /\ (forall n ts, abs s n = Some ts -> line_roundtrips n ts).
Proof.
  cbn zeta. split; [reflexivity|]. split; [reflexivity|].
  split; [apply store_ok_reachable, store_ok_init|].
  intros n ts H. unfold abs in H.
  match type of H with toks_get n (st_toks ?x) = _ =>
    let v := eval vm_compute in (st_toks x) in change (st_toks x) with v in H end.
  cbn [toks_get] in H.
  destruct (N.eqb_spec 10 n); [subst; inversion H; subst; vm_compute; reflexivity|].
  destruct (N.eqb_spec 20 n); [subst; inversion H; subst; vm_compute; reflexivity|].
  discriminate.
Qed.

(* Token adjacency, decided over the regenerated tables (Gen/Tables.v: keyword
   list in matcher order, one- and two-character operators): every such token
   is re-read from its canonical spelling, and every ordered pair of them that
   the tokenizer can produce at all is re-read from the two spellings joined
   by the single blank LIST puts between tokens. *)
Theorem C14_fixed_tokens : forallb fixed_token_ok fixed_tokens = true.
Proof. exact fixed_tokens_roundtrip. Qed.

Theorem C14_fixed_pairs :
  forallb (fun t1 => forallb (fixed_pair_ok t1) fixed_tokens) fixed_tokens = true.
Proof. exact fixed_pairs_roundtrip. Qed.

(* Per-line round trip for literal tokens (numerals in every spelling, DATA
   items, REM text, strings, symbol-numeral adjacency) is NOT proved in
   general: it is the hypothesis [line_roundtrips] above, discharged by
   execution — by the examples below inside Coq and, on the implementation
   and the model alike, by the LIST -> reload -> LIST / RUN oracle and the
   correspondence over generated programs (DESIGN.md 6 C14, L). *)
Example C14_example :
  forallb (fun text =>
     match edit_of (bs text) with
     | Some (n, ts) =>
         match edit_of (listing_line n ts) with
         | Some (n', ts') => N.eqb n n' && tokens_eqb ts ts'
         | None => false
         end
     | None => false
     end)
    ["10 PRINT ""a b"";X$;.5;007;1E5"; "20 REM  x y  "; "30 DATA 1, ""a b"", c, ""q"" : PRINT A.5";
     "40 IF A<>B THEN GOTO 10 ELSE ?""n"""; "50 FORI=ATOBSTEP-1:NEXTI"; "60 DATA hello ""there"", x";
     "70 X=12345678901234567890+.000001"]%string = true.
Proof. exact ex_line_roundtrips. Qed.

Print Assumptions C14_reload_store.
Print Assumptions C14_list_fixpoint.
Print Assumptions C14_reload_behaves_alike.
Print Assumptions C14_listing_is_list.
Print Assumptions C14_fixed_tokens.
Print Assumptions C14_fixed_pairs.
