(* C18 — RND is a pure, in-range function of the seed.
   Statements only; proofs are in Proofs/RngProofs.v. *)
From Coq Require Import List NArith ZArith Bool Floats.SpecFloat.
From Abasic Require Import Model.Bytes Model.Num Model.Token Model.Data Model.Lexer Gen.Tables
     Model.State Model.Eval Model.Interp Model.RustInt Gen.RandomRs Proofs.RngProofs Proofs.RngTie.
Import ListNotations.
Open Scope N_scope.

(* the generator is the documented LCG (constants regenerated from random.rs) *)
Theorem C18_documented : forall s, lcg s = (1664525 * s + 1013904223) mod 2 ^ 33.
Proof. exact lcg_documented. Qed.

(* seeding with any value gives the sequence of that value (seed mod 2^33),
   within the modulus, and the u64 arithmetic of the step cannot overflow *)
Theorem C18_seed : forall seed, rng_new seed < MODULUS.
Proof. exact rng_new_range. Qed.
Theorem C18_mod : forall s, lcg (s mod MODULUS) = lcg s.
Proof. exact lcg_mod_invariant. Qed.
Theorem C18_no_overflow : forall s, s < MODULUS -> MULTIPLIER * s + INCREMENT < 2 ^ 64.
Proof. exact lcg_no_u64_overflow. Qed.

(* argument-sign dispatch: negative = error without advancing, zero = repeat
   without advancing, anything else = advance *)
Theorem C18_dispatch : forall x st,
  rng_rnd x st =
  if f64_ltb x f64_zero then (Err EUnimplemented None, st)
  else if f64_eqb x f64_zero then (Ok (latest_random (rng st)), st)
  else (Ok (latest_random (lcg (rng st))), set_rng (lcg (rng st)) st).
Proof. exact rng_rnd_spec. Qed.

(* EVERY state below 2^33 maps to a double in [0, 1): exact value s / 2^33 *)
Theorem C18_exact : forall s, s < MODULUS ->
  latest_random s = binary_normalize prec emax (Z.of_N s) (-33) false.
Proof. exact latest_random_exact. Qed.
Theorem C18_range : forall s, s < MODULUS ->
  f64_leb f64_zero (latest_random s) = true /\ f64_ltb (latest_random s) f64_one = true.
Proof. exact latest_random_range. Qed.
Check C18_range : forall s, s < MODULUS ->
  f64_leb f64_zero (latest_random s) = true /\ f64_ltb (latest_random s) f64_one = true.

(* purity: the result sequence depends only on seed mod 2^33 and the arguments *)
Theorem C18_deterministic : forall st0 st1 seed0 seed1 args,
  seed0 mod MODULUS = seed1 mod MODULUS -> rnd_seq_from st0 seed0 args = rnd_seq_from st1 seed1 args.
Proof. exact rnd_seq_deterministic. Qed.

(* every element of every sequence is in range or the Unimplemented error *)
Theorem C18_seq_range : forall seed args,
  Forall (fun r => match r with
                   | Ok v => f64_leb f64_zero v = true /\ f64_ltb v f64_one = true
                   | Err e l => e = EUnimplemented /\ l = None
                   | _ => False
                   end) (rnd_seq seed args).
Proof. exact rnd_seq_range. Qed.

(* THE TIE TO random.rs BY TRANSLATION.  Gen/RandomRs.v holds every method of
   `impl Rng` as translated from the source text on this run (checked u64
   arithmetic: an overflow or a remainder by zero is None / RsPanic).  The
   translated constructor is the model's for EVERY seed; the translated step,
   on every reduced state, does not overflow and is the model's LCG step with
   the model's quotient; and a whole session of the translated code — seed,
   then any list of RND arguments — never panics and yields exactly the
   sequence the theorems above speak about. *)
Theorem C18_code_new : forall seed, rs_new seed = Some (rng_new seed).
Proof. exact rs_new_is_model. Qed.
Theorem C18_code_step : forall s, s < MODULUS -> rs_random s = Some (lcg s, latest_random (lcg s)).
Proof. exact rs_random_is_model. Qed.
Theorem C18_code_rnd : forall x st, rng st < MODULUS ->
  rs_rnd x (rng st) <> RsPanic /\
  (forall e, rs_rnd x (rng st) = RsErr e -> e = "Unimplemented"%string) /\
  fst (rng_rnd x st) = rs_to_res (rs_rnd x (rng st)) /\
  rng (snd (rng_rnd x st)) = rs_field (rng st) (rs_rnd x (rng st)) /\
  rs_field (rng st) (rs_rnd x (rng st)) < MODULUS.
Proof. exact rs_rnd_is_model. Qed.
Theorem C18_code_session : forall seed args,
  exists outs, rs_session seed args = Some outs /\ ~ In RsPanic outs /\
               map rs_to_res outs = rnd_seq seed args /\
               forall st0, map rs_to_res outs = rnd_seq_from st0 seed args.
Proof. exact rs_session_is_model. Qed.
Check C18_code_session : forall seed args,
  exists outs, rs_session seed args = Some outs /\ ~ In RsPanic outs /\
               map rs_to_res outs = rnd_seq seed args /\
               forall st0, map rs_to_res outs = rnd_seq_from st0 seed args.

(* non-vacuity: a u64::MAX seed, RND(0) then two draws, evaluated on the translated code *)
Example C18_code_session_example :
  exists a b c, rs_session 18446744073709551615 [f64_zero; f64_one; f64_one] = Some [RsOk 8589934591 a; RsOk 1012239698 b; RsOk 806866057 c].
Proof. vm_compute. do 3 eexists. reflexivity. Qed.


Print Assumptions C18_documented.
Print Assumptions C18_seed.
Print Assumptions C18_mod.
Print Assumptions C18_no_overflow.
Print Assumptions C18_dispatch.
Print Assumptions C18_exact.
Print Assumptions C18_range.
Print Assumptions C18_deterministic.
Print Assumptions C18_seq_range.
Print Assumptions C18_code_new.
Print Assumptions C18_code_step.
Print Assumptions C18_code_rnd.
Print Assumptions C18_code_session.
