(* C03 — Programs behave as an independent reference interpreter says they should.
   Statements only; proofs are in Proofs/RefProofs.v (and Proofs/ExprSem.v).

   [Ref/RefSem.v] is the reference interpreter: a small-step interpreter on
   SYNTAX TREES written from the documented semantics — no token stream, no
   cursor, no host turns.  PARTIAL: the whole-program simulation
   (C03_simulation of DESIGN.md 6 C03) is not proved.  What is proved:
     (1) the yardstick has the documented behaviours the property lists;
     (2) on the expression fragment of C02 the token walker and the reference
         evaluator agree, for every tree and every legal spelling: a theorem;
   and the whole-program claim is decided on every run by execution: the
   reference interpreter is evaluated INSIDE Coq on each generated program and
   must print what the implementation prints and fail where it fails. *)
From Coq Require Import List NArith ZArith Bool Lia Sorted.
From Abasic Require Import Model.Bytes Model.Num Model.Token Model.Data Model.Lexer Gen.Tables
     Model.State Model.Eval Model.Interp Ref.RefSem Proofs.ExprSem Proofs.RefProofs Proofs.StmtSim
     Proofs.ProgSim Proofs.ProgRun.
From Abasic Require Proofs.StoreProofs.
From Abasic Require Gen.ProgramEvents Proofs.ArraysTie.
From Coq Require String.
Import ListNotations.
Local Open Scope nat_scope.

(* (1) the yardstick *)

(* a FOR body always runs at least once, with limit and step fixed at entry *)
Theorem C03_ref_for_runs_once : forall fuel p v a b after li st from to st1 st2,
  eval fuel st a = EOk (VNum from) st1 -> eval fuel st1 b = EOk (VNum to) st2 -> str_name v = false ->
  let kept := match drop_loop v (r_loops st2) with Some (_, k) => k | None => r_loops st2 end in
  length kept <> depth_cap ->
  exec fuel p (SFor v a b None) after li st
  = Next after (set_vars' (update v (VNum from) (r_vars st2)) (set_loops' (kept ++ [mkrl v to f64_one after]) st2)).
Proof. exact ref_for_runs_once. Qed.

(* NEXT forgets inner loops *)
Theorem C03_ref_next_forgets_inner : forall fuel p v after li st outer lp inner cur,
  r_loops st = outer ++ lp :: inner -> rl_var lp = v -> (forall x, In x inner -> rl_var x <> v) ->
  lookup v (r_vars st) = Some (VNum cur) -> str_name v = false ->
  exists st' pc', exec fuel p (SNext v) after li st = Next pc' st'
    /\ (r_loops st' = outer ++ [lp] \/ r_loops st' = outer)
    /\ (pc' = rl_body lp \/ pc' = after).
Proof. exact ref_next_forgets_inner. Qed.

(* undefined variables read as 0 or the empty string *)
Theorem C03_ref_undefined_variable : forall st name,
  lookup_frames name (r_frames st) = None -> lookup name (r_vars st) = None ->
  read_var st name = if str_name name then VStr [] else VNum f64_zero.
Proof. exact ref_undefined_variable. Qed.

(* implicit arrays have indices 0..10 in each of their 1-3 dimensions *)
Theorem C03_ref_implicit_array : forall name n st st',
  lookup name (r_arrays st) = None -> 1 <= n <= 3 -> ensure_array name n st = inl st' ->
  exists a, lookup name (r_arrays st') = Some a /\ ra_dims a = repeat 11%N n.
Proof. exact ref_implicit_array. Qed.

(* READ consumes DATA in line order, then statement order *)
Theorem C03_ref_data_order : forall p1 p2, data_list (p1 ++ p2) = data_list p1 ++ data_list p2.
Proof. exact ref_data_in_line_order. Qed.

(* (2) expressions: reference = fold, and (C02) token walker = fold *)
Theorem C03_expr_reference_is_fold : forall e e' st s fuel,
  tr e = Some e' -> same_reads st s -> xsize e <= fuel ->
  eval fuel st e = conv st (den s e').
Proof. exact ref_expr_is_den. Qed.

(* hence, for every tree of the fragment and EVERY legal token spelling of it,
   from every model state that reads variables like the reference state: the
   token walker returns what the reference evaluator returns *)
Theorem C03_expr_model_is_reference : forall e e' ts, tr e = Some e' -> Renders 0 e' ts ->
  forall st s pre rest n, same_reads st s -> enable_warnings s = false ->
    fst (cur_tokens s) = Ok (pre ++ ts ++ rest) -> loc_idx (loc s) = length pre ->
    stops 0 rest = true -> n + pdepth e' < max_nesting ->
  exists fuel0, forall fuel, fuel0 <= fuel ->
    conv st (fst (evaluate_expression fuel n s)) = eval (xsize e) st e.
Proof.
  intros e e' ts Htr Hr st s pre rest n Hrel Hw Htoks Hidx Hstop Hdepth.
  destruct (expr_sem e' ts Hr s pre rest n Hw Htoks Hidx Hstop Hdepth) as (fuel0 & H).
  exists fuel0. intros fuel Hf. specialize (H fuel Hf).
  destruct (evaluate_expression fuel n s) as [r s']. destruct H as (Hr' & _). cbn [fst]. rewrite Hr'.
  symmetry. apply (ref_expr_is_den e e' st s (xsize e) Htr Hrel). apply le_n.
Qed.

(* (3) statements: the assignment statement `v = e`, in ANY legal token spelling,
   from any cursor position of any line, run by the model's statement evaluator
   and by the reference interpreter from related stores ([same_store]: frames and
   variables agree): both succeed or both fail with the same error kind; on
   success the stores are related again (so the step composes), the model's
   cursor is just past the statement and only the store, cursor, read counter
   and (warnings) outputs changed; on failure neither store changed. *)
Theorem C03_let_statement_simulates : forall s toks,
  fst (cur_tokens s) = Ok toks -> enable_tracing s = false ->
  forall v e e' ts rest i,
  skipn i toks = TSymbol v :: TEquals :: ts ++ rest -> stops 0 rest = true ->
  tr e = Some e' -> Renders 0 e' ts ->
  forall d, Nat.eqb d max_nesting = false -> S d + pdepth e' < max_nesting ->
  forall p after li st, same_store st s ->
  exists fuel0, forall fuel, fuel0 <= fuel -> forall r o,
    match exec (xsize e) p (SLet v [] e) after li st with
    | Next pc st' =>
        pc = after /\
        exists s', evaluate_statement fuel d (at_idx s i r o) = (Ok tt, s')
          /\ same_store st' s'
          /\ loc s' = mkloc (loc_line (loc s)) (i + 2 + length ts)
          /\ W s o (outputs s')
          /\ (exists x r', s' = set_variables (alist_set v x (variables s))
                                (at_idx s (i + 2 + length ts) r' (outputs s')))
    | Fail er line st' =>
        line = line_no p li /\ st' = st /\
        exists ie l s', evaluate_statement fuel d (at_idx s i r o) = (Err ie l, s')
          /\ rerr_of ie = er /\ same_store st s'
    | Done _ | NoFuel => False
    end.
Proof. exact let_statement_simulates. Qed.

(* the PRINT statement, any item list (expressions, `;`, `,`) in any legal
   spelling: the reference appends one output record, the model pushes one
   Print record with the same text behind any warnings; stores and cursor as
   for the assignment; or both fail with the same error kind *)
Theorem C03_print_statement_simulates : forall s toks items mitems ts rest i p after li st d hd,
  fst (cur_tokens s) = Ok toks -> enable_tracing s = false ->
  hd = TPrint \/ hd = TQuestionMark ->
  skipn i toks = hd :: ts ++ rest ->
  tr_items items = Some mitems -> IRenders rest mitems ts ->
  Nat.eqb d max_nesting = false -> S d + idepth mitems < max_nesting ->
  same_store st s ->
  exists fuel0, forall fuel, fuel0 <= fuel -> forall r o,
    match exec (isize items) p (SPrint items) after li st with
    | Next pc st' =>
        pc = after /\
        exists text, st' = add_out text st /\
        exists s' ow r', evaluate_statement fuel d (at_idx s i r o) = (Ok tt, s')
          /\ W s o ow
          /\ s' = at_idx s (i + 1 + length ts) r' (ow ++ [OPrint text])
          /\ same_store st' s'
    | Fail er line st' =>
        line = line_no p li /\ st' = st /\
        exists ie l s', evaluate_statement fuel d (at_idx s i r o) = (Err ie l, s')
          /\ rerr_of ie = er /\ same_store st s'
    | Done _ | NoFuel => False
    end.
Proof. exact print_statement_simulates. Qed.

(* the relation gives the expression theorem its hypothesis *)
Theorem C03_same_store_reads : forall st s, same_store st s -> same_reads st s.
Proof. exact same_store_reads. Qed.

(* non-vacuity of (3): `A = 1 + B` typed as an immediate line into a fresh
   interpreter, against the reference from its initial state *)
Example C03_let_example :
  let toks := [TSymbol (bs "A"); TEquals; TNumber (f64_of_Z 1); TPlus; TSymbol (bs "B")] in
  let s := set_immediate toks init_interp in
  fst (cur_tokens s) = Ok toks /\ enable_tracing s = false
  /\ skipn 0 toks = TSymbol (bs "A") :: TEquals :: [TNumber (f64_of_Z 1); TPlus; TSymbol (bs "B")] ++ []
  /\ tr (XBin RAdd (XNum (f64_of_Z 1)) (XVar (bs "B"))) = Some (EBin (BAddSub OAdd) (ENum (f64_of_Z 1)) (EVar (bs "B")))
  /\ Renders 0 (EBin (BAddSub OAdd) (ENum (f64_of_Z 1)) (EVar (bs "B"))) [TNumber (f64_of_Z 1); TPlus; TSymbol (bs "B")]
  /\ same_store (r_init 0) s
  /\ fst (evaluate_statement 20 0 s) = Ok tt
  /\ alist_get (bs "A") (variables (snd (evaluate_statement 20 0 s))) = Some (VNum (f64_of_Z 1)).
Proof.
  cbv zeta. repeat split; try reflexivity.
  - do 3 (apply R_incl; [repeat constructor|]).
    apply (R_bin (BAddSub OAdd) (ENum (f64_of_Z 1)) (EVar (bs "B")) [TNumber (f64_of_Z 1)] [TSymbol (bs "B")]).
    + do 4 (apply R_incl; [repeat constructor|]). constructor.
    + do 3 (apply R_incl; [repeat constructor|]). constructor.
Qed.

(* (4) WHOLE PROGRAMS of a fragment: scalar assignment, PRINT, GOTO,
   IF c THEN <line>, END over the expression fragment — a language of counter
   machines (programs loop, branch, need not terminate).  For ANY reference
   program [p] of the fragment and ANY legal token spelling of it stored in the
   model ([Inv]: each line is its statements' spellings joined by colons), from
   related configurations ([Sim]: same place, same variable store, the model
   has printed the reference's output records), after EVERY number [k] of
   reference steps:
     - reference still running at pc' -> the model, after finitely many host
       calls each made with enough fuel, is in a state related to it again;
     - reference finished (END / end of program) -> the model is idle and has
       printed exactly the reference's output;
     - reference failed -> the model's call fails with the same error kind on
       the same line, having printed the same output;
     - the reference never runs out of fuel.
   [reach P s]: every sufficiently fuelled run of host calls from [s] passes
   through a state satisfying [P] (definitions in Proofs/ProgSim.v).  The model
   executes the colon between statements as a call of its own and advances to
   the next line inside the call: the simulation absorbs both. *)
Theorem C03_fragment_simulation : forall F p o0 k pc st s,
  Sim F p o0 pc st s -> after_step F p o0 (rrun F p k pc st) s.
Proof. exact fragment_simulation. Qed.

Check C03_fragment_simulation : forall F p o0 k pc st s,
  Sim F p o0 pc st s ->
  match rrun F p k pc st with
  | Next pc' st' => reach (Sim F p o0 pc' st') s
  | Done st' => reach (fun s' => state s' = Idle /\ outputs s' = o0 ++ map OPrint (r_out st')) s
  | Fail er line st' =>
      reach (fun s1 => exists f0, forall fuel, f0 <= fuel -> exists ie l s',
               continue_evaluating fuel s1 = (Err ie (Some l), s') /\ rerr_of2 ie = er /\ loc_line l = Some line
               /\ state s' = Idle /\ outputs s' = o0 ++ map OPrint (r_out st')) s
  | NoFuel => False
  end.

(* ... and RUN: for a program of the fragment stored in an idle interpreter,
   the host call start_evaluating("RUN") IS the first call of a run that
   simulates the reference interpreter from its initial state (variables
   cleared, at the first line) *)
Theorem C03_run_simulates : forall F p s seed n stmts,
  Inv F p s -> state s = Idle -> nth_error p 0 = Some (n, stmts) ->
  (forall fuel, start_evaluating fuel (bs "RUN") s = continue_evaluating fuel (run_start s))
  /\ forall k, after_step F p (outputs s) (rrun F p k (0, 0) (r_init seed)) (run_start s).
Proof. exact run_simulates. Qed.

(* non-vacuity of (4): the program  10 I = I + 1 / 20 PRINT I; / 30 IF I < 3
   THEN 10 / 40 END  typed into a fresh interpreter and started: the tokens are
   the tokenizer's, the configuration is related to the reference's initial
   one, and therefore (by the theorem) every sufficiently fuelled run of host
   calls ends idle having printed 1, 2, 3 — what the reference prints *)
Definition ex_lines := [HLine (bs "10 I = I + 1"); HLine (bs "20 PRINT I;"); HLine (bs "30 IF I < 3 THEN 10"); HLine (bs "40 END")].
Definition ex_s : interp := set_state Running (snd (run_from_first_numbered_line (StoreProofs.run_state 50 init_interp ex_lines))).
Definition n1 : f64 := SpecFloat.S754_finite false 4503599627370496 (-52).
Definition n3 : f64 := SpecFloat.S754_finite false 6755399441055744 (-51).
Definition n10 : f64 := SpecFloat.S754_finite false 5629499534213120 (-49).
Definition vI : bytes := [73%N].
Definition ex_p : rprogram :=
  [(10%N, [SLet vI [] (XBin RAdd (XVar vI) (XNum n1))]);
   (20%N, [SPrint [PExpr (XVar vI); PSemi]]);
   (30%N, [SIf (XBin (RCmp CLt) (XVar vI) (XNum n3)) (ALine 10%N) None]);
   (40%N, [SEnd])].

Lemma R0_var v : Renders 0 (EVar v) [TSymbol v].
Proof. do 7 (apply R_incl; [lia|]). constructor. Qed.

Example ex_sim : Sim 8 ex_p [] (0, 0) (r_init 0) ex_s.
Proof.
  apply (Sim_at 8 ex_p [] 0 0 (r_init 0) ex_s false).
  - split; try reflexivity.
    + repeat constructor.
    + intros li n stmts H.
      destruct li as [|[|[|[|li]]]]; cbn in H; try (destruct li; discriminate); inversion H; subst; eexists; (split; [vm_compute; reflexivity|]); apply LR_last.
      * apply (SR_let 8 0 [] vI (XBin RAdd (XVar vI) (XNum n1)) (EBin (BAddSub OAdd) (EVar vI) (ENum n1)) [TSymbol vI; TPlus; TNumber n1]); try reflexivity; try (cbn; lia).
        do 3 (apply R_incl; [lia|]).
        apply (R_bin (BAddSub OAdd) (EVar vI) (ENum n1) [TSymbol vI] [TNumber n1]).
        -- do 4 (apply R_incl; [cbn; lia|]). constructor.
        -- do 3 (apply R_incl; [cbn; lia|]). constructor.
      * apply (SR_print 8 0 [] [PExpr (XVar vI); PSemi] [MExpr (EVar vI); MSemi] [TSymbol vI; TSemicolon]); try reflexivity; try (cbn; lia).
        apply (IR_expr [] (EVar vI) [TSymbol vI] [MSemi] [TSemicolon]); [apply R0_var | reflexivity|].
        apply IR_semi. apply IR_nil. reflexivity.
      * apply (SR_if 8 0 [] (XBin (RCmp CLt) (XVar vI) (XNum n3)) (EBin (BCmp OLessThan) (EVar vI) (ENum n3)) [TSymbol vI; TLessThan; TNumber n3] 10%N n10); try reflexivity; try (cbn; lia).
        do 2 (apply R_incl; [lia|]).
        apply (R_bin (BCmp OLessThan) (EVar vI) (ENum n3) [TSymbol vI] [TNumber n3]).
        -- do 5 (apply R_incl; [cbn; lia|]). constructor.
        -- do 4 (apply R_incl; [cbn; lia|]). constructor.
      * apply SR_end.
    + intros n H.
      assert (E : st_toks ex_s = [(40%N, [TEnd]); (30%N, [TIf; TSymbol vI; TLessThan; TNumber n3; TThen; TNumber n10]);
                                 (20%N, [TPrint; TSymbol vI; TSemicolon]);
                                 (10%N, [TSymbol vI; TEquals; TSymbol vI; TPlus; TNumber n1])]) by (vm_compute; reflexivity).
      rewrite E in H. cbn [toks_get] in H. cbn [map fst ex_p In].
      destruct (N.eqb_spec 40 n); [subst; tauto|]. destruct (N.eqb_spec 30 n); [subst; tauto|].
      destruct (N.eqb_spec 20 n); [subst; tauto|]. destruct (N.eqb_spec 10 n); [subst; tauto|].
      exfalso. apply H. reflexivity.
  - reflexivity.
  - split; intros name; reflexivity.
  - reflexivity.
  - split; [reflexivity | constructor].
  - constructor.
  - intros name x H. vm_compute in H. discriminate.
  - vm_compute. reflexivity.
  - exists 10%N, [SLet vI [] (XBin RAdd (XVar vI) (XNum n1))], [TSymbol vI; TEquals; TSymbol vI; TPlus; TNumber n1], [TSymbol vI; TEquals; TSymbol vI; TPlus; TNumber n1].
    repeat split; try reflexivity.
    apply LR_last.
    apply (SR_let 8 0 [] vI (XBin RAdd (XVar vI) (XNum n1)) (EBin (BAddSub OAdd) (EVar vI) (ENum n1)) [TSymbol vI; TPlus; TNumber n1]); try reflexivity; try (cbn; lia).
    do 3 (apply R_incl; [lia|]).
    apply (R_bin (BAddSub OAdd) (EVar vI) (ENum n1) [TSymbol vI] [TNumber n1]).
    + do 4 (apply R_incl; [cbn; lia|]). constructor.
    + do 3 (apply R_incl; [cbn; lia|]). constructor.
Qed.
Example ex_runs : exists st', rrun 8 ex_p 40 (0,0) (r_init 0) = Done st' /\ r_out st' = [bs "1"; bs "2"; bs "3"]
  /\ reach (fun s => state s = Idle /\ outputs s = map OPrint [bs "1"; bs "2"; bs "3"]) ex_s.
Proof.
  pose proof (fragment_simulation 8 ex_p [] 40 (0,0) (r_init 0) ex_s ex_sim) as H.
  destruct (rrun 8 ex_p 40 (0,0) (r_init 0)) as [pc st'|st'|er l st'|] eqn:E; try (vm_compute in E; discriminate).
  exists st'. split; [reflexivity|].
  assert (Ho : r_out st' = [bs "1"; bs "2"; bs "3"]).
  { vm_compute in E. inversion E. reflexivity. }
  split; [exact Ho|]. unfold after_step in H.
  eapply reach_bind; [exact H|]. intros s' [A B]. apply reach_now. split; [exact A|]. rewrite B, Ho. reflexivity.
Qed.

(* non-vacuity of (4) for subroutines:  10 GOSUB 30: PRINT I; / 20 END /
   30 I = I + 1 / 40 RETURN  — the RETURN lands on the colon after the GOSUB *)
Definition ex2_lines := [HLine (bs "10 GOSUB 30: PRINT I;"); HLine (bs "20 END"); HLine (bs "30 I = I + 1"); HLine (bs "40 RETURN")].
Definition ex2_s : interp := set_state Running (snd (run_from_first_numbered_line (StoreProofs.run_state 50 init_interp ex2_lines))).
Definition n30 : f64 := f64_of_Z 30.
Definition ex2_p : rprogram :=
  [(10%N, [SGosub 30%N; SPrint [PExpr (XVar vI); PSemi]]);
   (20%N, [SEnd]);
   (30%N, [SLet vI [] (XBin RAdd (XVar vI) (XNum n1))]);
   (40%N, [SReturn])].

Lemma ex2_line10 : LRen 8 [SGosub 30%N; SPrint [PExpr (XVar vI); PSemi]] ([TGosub; TNumber n30] ++ TColon :: [TPrint; TSymbol vI; TSemicolon]).
Proof.
  apply LR_cons; [apply SR_gosub; vm_compute; reflexivity|]. apply LR_last.
  apply (SR_print 8 0 [] [PExpr (XVar vI); PSemi] [MExpr (EVar vI); MSemi] [TSymbol vI; TSemicolon]); try reflexivity; try (cbn; lia).
  apply (IR_expr [] (EVar vI) [TSymbol vI] [MSemi] [TSemicolon]); [apply R0_var | reflexivity|].
  apply IR_semi. apply IR_nil. reflexivity.
Qed.

Example ex2_sim : Sim 8 ex2_p [] (0, 0) (r_init 0) ex2_s.
Proof.
  apply (Sim_at 8 ex2_p [] 0 0 (r_init 0) ex2_s false).
  - split; try reflexivity.
    + repeat constructor.
    + intros li n stmts H.
      destruct li as [|[|[|[|li]]]]; cbn in H; try (destruct li; discriminate); inversion H; subst; eexists; (split; [vm_compute; reflexivity|]).
      * exact ex2_line10.
      * apply LR_last, SR_end.
      * apply LR_last.
        apply (SR_let 8 0 [] vI (XBin RAdd (XVar vI) (XNum n1)) (EBin (BAddSub OAdd) (EVar vI) (ENum n1)) [TSymbol vI; TPlus; TNumber n1]); try reflexivity; try (cbn; lia).
        do 3 (apply R_incl; [lia|]).
        apply (R_bin (BAddSub OAdd) (EVar vI) (ENum n1) [TSymbol vI] [TNumber n1]).
        -- do 4 (apply R_incl; [cbn; lia|]). constructor.
        -- do 3 (apply R_incl; [cbn; lia|]). constructor.
      * apply LR_last, SR_return.
    + intros n H.
      assert (E : st_toks ex2_s = [(40%N, [TReturn]); (30%N, [TSymbol vI; TEquals; TSymbol vI; TPlus; TNumber n1]);
                                  (20%N, [TEnd]);
                                  (10%N, [TGosub; TNumber n30; TColon; TPrint; TSymbol vI; TSemicolon])]) by (vm_compute; reflexivity).
      rewrite E in H. cbn [toks_get] in H. cbn [map fst ex2_p In].
      destruct (N.eqb_spec 40 n); [subst; tauto|]. destruct (N.eqb_spec 30 n); [subst; tauto|].
      destruct (N.eqb_spec 20 n); [subst; tauto|]. destruct (N.eqb_spec 10 n); [subst; tauto|].
      exfalso. apply H. reflexivity.
  - reflexivity.
  - split; intros name; reflexivity.
  - reflexivity.
  - split; [reflexivity | constructor].
  - constructor.
  - intros name x H. vm_compute in H. discriminate.
  - vm_compute. reflexivity.
  - exists 10%N, [SGosub 30%N; SPrint [PExpr (XVar vI); PSemi]], [TGosub; TNumber n30; TColon; TPrint; TSymbol vI; TSemicolon],
      [TGosub; TNumber n30; TColon; TPrint; TSymbol vI; TSemicolon].
    split; [reflexivity|]. split; [vm_compute; reflexivity|]. split; [reflexivity|]. split; [reflexivity|].
    exact ex2_line10.
Qed.
Example ex2_runs : exists st', rrun 8 ex2_p 40 (0,0) (r_init 0) = Done st' /\ r_out st' = [bs "1"]
  /\ reach (fun s => state s = Idle /\ outputs s = map OPrint [bs "1"]) ex2_s.
Proof.
  pose proof (fragment_simulation 8 ex2_p [] 40 (0,0) (r_init 0) ex2_s ex2_sim) as H.
  destruct (rrun 8 ex2_p 40 (0,0) (r_init 0)) as [pc st'|st'|er l st'|] eqn:E; try (vm_compute in E; discriminate).
  exists st'. split; [reflexivity|].
  assert (Ho : r_out st' = [bs "1"]).
  { vm_compute in E. inversion E. reflexivity. }
  split; [exact Ho|]. unfold after_step in H.
  eapply reach_bind; [exact H|]. intros s' [A B]. apply reach_now. split; [exact A|]. rewrite B, Ho. reflexivity.
Qed.

(* non-vacuity of (4) for loops:  10 FOR I = 1 TO 5 STEP 2 / 20 PRINT I; / 30 NEXT I
   — NEXT lands at the end of line 10, the run falls off the end of the program *)
Definition ex3_lines := [HLine (bs "10 FOR I = 1 TO 5 STEP 2"); HLine (bs "20 PRINT I;"); HLine (bs "30 NEXT I")].
Definition ex3_s : interp := set_state Running (snd (run_from_first_numbered_line (StoreProofs.run_state 50 init_interp ex3_lines))).
Definition n2 : f64 := f64_of_Z 2.
Definition n5 : f64 := f64_of_Z 5.
Definition ex3_p : rprogram :=
  [(10%N, [SFor vI (XNum n1) (XNum n5) (Some (XNum n2))]);
   (20%N, [SPrint [PExpr (XVar vI); PSemi]]);
   (30%N, [SNext vI])].

Lemma R0_num x : Renders 0 (ENum x) [TNumber x].
Proof. do 7 (apply R_incl; [lia|]). constructor. Qed.

Lemma ex3_line10 : LRen 8 [SFor vI (XNum n1) (XNum n5) (Some (XNum n2))]
                          (TFor :: TSymbol vI :: TEquals :: [TNumber n1] ++ TTo :: [TNumber n5] ++ [TStep; TNumber n2]).
Proof.
  apply LR_last.
  apply (SR_for 8 0 [] vI (XNum n1) (ENum n1) [TNumber n1] (XNum n5) (ENum n5) [TNumber n5] (Some (XNum n2)) [TStep; TNumber n2]);
    try reflexivity; try apply R0_num; try (cbn; lia).
  right. exists (XNum n2), (ENum n2), [TNumber n2]. repeat split; try reflexivity; try apply R0_num; cbn; lia.
Qed.

Example ex3_sim : Sim 8 ex3_p [] (0, 0) (r_init 0) ex3_s.
Proof.
  apply (Sim_at 8 ex3_p [] 0 0 (r_init 0) ex3_s false).
  - split; try reflexivity.
    + repeat constructor.
    + intros li n stmts H.
      destruct li as [|[|[|li]]]; cbn in H; try (destruct li; discriminate); inversion H; subst; eexists; (split; [vm_compute; reflexivity|]).
      * exact ex3_line10.
      * apply LR_last.
        apply (SR_print 8 0 [] [PExpr (XVar vI); PSemi] [MExpr (EVar vI); MSemi] [TSymbol vI; TSemicolon]); try reflexivity; try (cbn; lia).
        apply (IR_expr [] (EVar vI) [TSymbol vI] [MSemi] [TSemicolon]); [apply R0_var | reflexivity|].
        apply IR_semi. apply IR_nil. reflexivity.
      * apply LR_last, SR_next.
    + intros n H.
      assert (E : st_toks ex3_s = [(30%N, [TNext; TSymbol vI]); (20%N, [TPrint; TSymbol vI; TSemicolon]);
                                  (10%N, [TFor; TSymbol vI; TEquals; TNumber n1; TTo; TNumber n5; TStep; TNumber n2])]) by (vm_compute; reflexivity).
      rewrite E in H. cbn [toks_get] in H. cbn [map fst ex3_p In].
      destruct (N.eqb_spec 30 n); [subst; tauto|].
      destruct (N.eqb_spec 20 n); [subst; tauto|]. destruct (N.eqb_spec 10 n); [subst; tauto|].
      exfalso. apply H. reflexivity.
  - reflexivity.
  - split; intros name; reflexivity.
  - reflexivity.
  - split; [reflexivity | constructor].
  - constructor.
  - intros name x H. vm_compute in H. discriminate.
  - vm_compute. reflexivity.
  - exists 10%N, [SFor vI (XNum n1) (XNum n5) (Some (XNum n2))],
      [TFor; TSymbol vI; TEquals; TNumber n1; TTo; TNumber n5; TStep; TNumber n2],
      [TFor; TSymbol vI; TEquals; TNumber n1; TTo; TNumber n5; TStep; TNumber n2].
    split; [reflexivity|]. split; [vm_compute; reflexivity|]. split; [reflexivity|]. split; [reflexivity|].
    exact ex3_line10.
Qed.
Example ex3_runs : exists st', rrun 8 ex3_p 40 (0,0) (r_init 0) = Done st' /\ r_out st' = [bs "1"; bs "3"; bs "5"]
  /\ reach (fun s => state s = Idle /\ outputs s = map OPrint [bs "1"; bs "3"; bs "5"]) ex3_s.
Proof.
  pose proof (fragment_simulation 8 ex3_p [] 40 (0,0) (r_init 0) ex3_s ex3_sim) as H.
  destruct (rrun 8 ex3_p 40 (0,0) (r_init 0)) as [pc st'|st'|er l st'|] eqn:E; try (vm_compute in E; discriminate).
  exists st'. split; [reflexivity|].
  assert (Ho : r_out st' = [bs "1"; bs "3"; bs "5"]).
  { vm_compute in E. inversion E. reflexivity. }
  split; [exact Ho|]. unfold after_step in H.
  eapply reach_bind; [exact H|]. intros s' [A B]. apply reach_now. split; [exact A|]. rewrite B, Ho. reflexivity.
Qed.

(* non-vacuity of (4) for IF..THEN <statement>:  10 I = I + 1 / 20 IF I < 3 THEN PRINT I; /
   30 IF I < 3 THEN 10  — the clause runs one nesting level down, or the rest of the line is skipped *)
Definition ex4_lines := [HLine (bs "10 I = I + 1"); HLine (bs "20 IF I < 3 THEN PRINT I;"); HLine (bs "30 IF I < 3 THEN 10")].
Definition ex4_s : interp := set_state Running (snd (run_from_first_numbered_line (StoreProofs.run_state 50 init_interp ex4_lines))).
Definition cI3 : rexpr := XBin (RCmp CLt) (XVar vI) (XNum n3).
Definition cI3' : expr := EBin (BCmp OLessThan) (EVar vI) (ENum n3).
Definition ex4_p : rprogram :=
  [(10%N, [SLet vI [] (XBin RAdd (XVar vI) (XNum n1))]);
   (20%N, [SIf cI3 (AStmt (SPrint [PExpr (XVar vI); PSemi])) None]);
   (30%N, [SIf cI3 (ALine 10%N) None])].

Lemma cI3_renders : Renders 0 cI3' [TSymbol vI; TLessThan; TNumber n3].
Proof.
  do 2 (apply R_incl; [lia|]).
  apply (R_bin (BCmp OLessThan) (EVar vI) (ENum n3) [TSymbol vI] [TNumber n3]).
  - do 5 (apply R_incl; [cbn; lia|]). constructor.
  - do 4 (apply R_incl; [cbn; lia|]). constructor.
Qed.

Lemma ex4_line20 : LRen 8 [SIf cI3 (AStmt (SPrint [PExpr (XVar vI); PSemi])) None]
                          (TIf :: [TSymbol vI; TLessThan; TNumber n3] ++ TThen :: [TPrint; TSymbol vI; TSemicolon]).
Proof.
  apply LR_last.
  apply (SR_if_stmt 8 0 [] cI3 cI3' [TSymbol vI; TLessThan; TNumber n3] (SPrint [PExpr (XVar vI); PSemi]) [TPrint; TSymbol vI; TSemicolon]);
    try reflexivity; try apply cI3_renders; try (cbn; lia).
  apply (SR_print 8 1 [] [PExpr (XVar vI); PSemi] [MExpr (EVar vI); MSemi] [TSymbol vI; TSemicolon]); try reflexivity; try (cbn; lia).
  apply (IR_expr [] (EVar vI) [TSymbol vI] [MSemi] [TSemicolon]); [apply R0_var | reflexivity|].
  apply IR_semi. apply IR_nil. reflexivity.
Qed.

Example ex4_sim : Sim 8 ex4_p [] (0, 0) (r_init 0) ex4_s.
Proof.
  apply (Sim_at 8 ex4_p [] 0 0 (r_init 0) ex4_s false).
  - split; try reflexivity.
    + repeat constructor.
    + intros li n stmts H.
      destruct li as [|[|[|li]]]; cbn in H; try (destruct li; discriminate); inversion H; subst; eexists; (split; [vm_compute; reflexivity|]).
      * apply LR_last.
        apply (SR_let 8 0 [] vI (XBin RAdd (XVar vI) (XNum n1)) (EBin (BAddSub OAdd) (EVar vI) (ENum n1)) [TSymbol vI; TPlus; TNumber n1]); try reflexivity; try (cbn; lia).
        do 3 (apply R_incl; [lia|]).
        apply (R_bin (BAddSub OAdd) (EVar vI) (ENum n1) [TSymbol vI] [TNumber n1]).
        -- do 4 (apply R_incl; [cbn; lia|]). constructor.
        -- do 3 (apply R_incl; [cbn; lia|]). constructor.
      * exact ex4_line20.
      * apply LR_last.
        apply (SR_if 8 0 [] cI3 cI3' [TSymbol vI; TLessThan; TNumber n3] 10%N n10); try reflexivity; try apply cI3_renders; try (cbn; lia).
    + intros n H.
      assert (E : st_toks ex4_s = [(30%N, [TIf; TSymbol vI; TLessThan; TNumber n3; TThen; TNumber n10]);
                                  (20%N, [TIf; TSymbol vI; TLessThan; TNumber n3; TThen; TPrint; TSymbol vI; TSemicolon]);
                                  (10%N, [TSymbol vI; TEquals; TSymbol vI; TPlus; TNumber n1])]) by (vm_compute; reflexivity).
      rewrite E in H. cbn [toks_get] in H. cbn [map fst ex4_p In].
      destruct (N.eqb_spec 30 n); [subst; tauto|].
      destruct (N.eqb_spec 20 n); [subst; tauto|]. destruct (N.eqb_spec 10 n); [subst; tauto|].
      exfalso. apply H. reflexivity.
  - reflexivity.
  - split; intros name; reflexivity.
  - reflexivity.
  - split; [reflexivity | constructor].
  - constructor.
  - intros name x H. vm_compute in H. discriminate.
  - vm_compute. reflexivity.
  - exists 10%N, [SLet vI [] (XBin RAdd (XVar vI) (XNum n1))], [TSymbol vI; TEquals; TSymbol vI; TPlus; TNumber n1], [TSymbol vI; TEquals; TSymbol vI; TPlus; TNumber n1].
    repeat split; try reflexivity.
    apply LR_last.
    apply (SR_let 8 0 [] vI (XBin RAdd (XVar vI) (XNum n1)) (EBin (BAddSub OAdd) (EVar vI) (ENum n1)) [TSymbol vI; TPlus; TNumber n1]); try reflexivity; try (cbn; lia).
    do 3 (apply R_incl; [lia|]).
    apply (R_bin (BAddSub OAdd) (EVar vI) (ENum n1) [TSymbol vI] [TNumber n1]).
    + do 4 (apply R_incl; [cbn; lia|]). constructor.
    + do 3 (apply R_incl; [cbn; lia|]). constructor.
Qed.
Example ex4_runs : exists st', rrun 8 ex4_p 40 (0,0) (r_init 0) = Done st' /\ r_out st' = [bs "1"; bs "2"]
  /\ reach (fun s => state s = Idle /\ outputs s = map OPrint [bs "1"; bs "2"]) ex4_s.
Proof.
  pose proof (fragment_simulation 8 ex4_p [] 40 (0,0) (r_init 0) ex4_s ex4_sim) as H.
  destruct (rrun 8 ex4_p 40 (0,0) (r_init 0)) as [pc st'|st'|er l st'|] eqn:E; try (vm_compute in E; discriminate).
  exists st'. split; [reflexivity|].
  assert (Ho : r_out st' = [bs "1"; bs "2"]).
  { vm_compute in E. inversion E. reflexivity. }
  split; [exact Ho|]. unfold after_step in H.
  eapply reach_bind; [exact H|]. intros s' [A B]. apply reach_now. split; [exact A|]. rewrite B, Ho. reflexivity.
Qed.

(* non-vacuity of (4) for ELSE:  10 I = I + 1 / 20 IF I < 3 THEN PRINT I; ELSE PRINT 9; /
   30 IF I < 3 THEN 10 ELSE END *)
Definition ex5_lines := [HLine (bs "10 I = I + 1"); HLine (bs "20 IF I < 3 THEN PRINT I; ELSE PRINT 9;"); HLine (bs "30 IF I < 3 THEN 10 ELSE END")].
Definition ex5_s : interp := set_state Running (snd (run_from_first_numbered_line (StoreProofs.run_state 50 init_interp ex5_lines))).
Definition n9 : f64 := f64_of_Z 9.
Definition ex5_p : rprogram :=
  [(10%N, [SLet vI [] (XBin RAdd (XVar vI) (XNum n1))]);
   (20%N, [SIf cI3 (AStmt (SPrint [PExpr (XVar vI); PSemi])) (Some (AStmt (SPrint [PExpr (XNum n9); PSemi])))]);
   (30%N, [SIf cI3 (ALine 10%N) (Some (AStmt SEnd))])].

Lemma ex5_line20 : LRen 8 [SIf cI3 (AStmt (SPrint [PExpr (XVar vI); PSemi])) (Some (AStmt (SPrint [PExpr (XNum n9); PSemi])))]
   (TIf :: [TSymbol vI; TLessThan; TNumber n3] ++ TThen :: [TPrint; TSymbol vI; TSemicolon] ++ TElse :: [TPrint; TNumber n9; TSemicolon]).
Proof.
  apply LR_last.
  apply (SR_if_else_stmt 8 0 [] cI3 cI3' [TSymbol vI; TLessThan; TNumber n3]
           (AStmt (SPrint [PExpr (XVar vI); PSemi])) [TPrint; TSymbol vI; TSemicolon]
           (SPrint [PExpr (XNum n9); PSemi]) [TPrint; TNumber n9; TSemicolon]);
    try reflexivity; try apply cI3_renders; try (cbn; lia).
  - apply (TR_print 8 1 _ [PExpr (XVar vI); PSemi] [MExpr (EVar vI); MSemi] [TSymbol vI; TSemicolon]); try reflexivity; try (cbn; lia).
    apply (IR_expr _ (EVar vI) [TSymbol vI] [MSemi] [TSemicolon]); [apply R0_var | reflexivity|].
    apply IR_semi. apply IR_nil. reflexivity.
  - apply (SR_print 8 1 [] [PExpr (XNum n9); PSemi] [MExpr (ENum n9); MSemi] [TNumber n9; TSemicolon]); try reflexivity; try (cbn; lia).
    apply (IR_expr [] (ENum n9) [TNumber n9] [MSemi] [TSemicolon]); [apply R0_num | reflexivity|].
    apply IR_semi. apply IR_nil. reflexivity.
Qed.

Lemma ex5_line30 : LRen 8 [SIf cI3 (ALine 10%N) (Some (AStmt SEnd))]
   (TIf :: [TSymbol vI; TLessThan; TNumber n3] ++ TThen :: [TNumber n10] ++ TElse :: [TEnd]).
Proof.
  apply LR_last.
  apply (SR_if_else_stmt 8 0 [] cI3 cI3' [TSymbol vI; TLessThan; TNumber n3] (ALine 10%N) [TNumber n10] SEnd [TEnd]);
    try reflexivity; try apply cI3_renders; try (cbn; lia).
  - apply TR_line. reflexivity.
  - apply SR_end.
Qed.

Example ex5_sim : Sim 8 ex5_p [] (0, 0) (r_init 0) ex5_s.
Proof.
  apply (Sim_at 8 ex5_p [] 0 0 (r_init 0) ex5_s false).
  - split; try reflexivity.
    + repeat constructor.
    + intros li n stmts H.
      destruct li as [|[|[|li]]]; cbn in H; try (destruct li; discriminate); inversion H; subst; eexists; (split; [vm_compute; reflexivity|]).
      * apply LR_last.
        apply (SR_let 8 0 [] vI (XBin RAdd (XVar vI) (XNum n1)) (EBin (BAddSub OAdd) (EVar vI) (ENum n1)) [TSymbol vI; TPlus; TNumber n1]); try reflexivity; try (cbn; lia).
        do 3 (apply R_incl; [lia|]).
        apply (R_bin (BAddSub OAdd) (EVar vI) (ENum n1) [TSymbol vI] [TNumber n1]).
        -- do 4 (apply R_incl; [cbn; lia|]). constructor.
        -- do 3 (apply R_incl; [cbn; lia|]). constructor.
      * exact ex5_line20.
      * exact ex5_line30.
    + intros n H.
      assert (E : st_toks ex5_s = [(30%N, [TIf; TSymbol vI; TLessThan; TNumber n3; TThen; TNumber n10; TElse; TEnd]);
                                  (20%N, [TIf; TSymbol vI; TLessThan; TNumber n3; TThen; TPrint; TSymbol vI; TSemicolon; TElse; TPrint; TNumber n9; TSemicolon]);
                                  (10%N, [TSymbol vI; TEquals; TSymbol vI; TPlus; TNumber n1])]) by (vm_compute; reflexivity).
      rewrite E in H. cbn [toks_get] in H. cbn [map fst ex5_p In].
      destruct (N.eqb_spec 30 n); [subst; tauto|].
      destruct (N.eqb_spec 20 n); [subst; tauto|]. destruct (N.eqb_spec 10 n); [subst; tauto|].
      exfalso. apply H. reflexivity.
  - reflexivity.
  - split; intros name; reflexivity.
  - reflexivity.
  - split; [reflexivity | constructor].
  - constructor.
  - intros name x H. vm_compute in H. discriminate.
  - vm_compute. reflexivity.
  - exists 10%N, [SLet vI [] (XBin RAdd (XVar vI) (XNum n1))], [TSymbol vI; TEquals; TSymbol vI; TPlus; TNumber n1], [TSymbol vI; TEquals; TSymbol vI; TPlus; TNumber n1].
    repeat split; try reflexivity.
    apply LR_last.
    apply (SR_let 8 0 [] vI (XBin RAdd (XVar vI) (XNum n1)) (EBin (BAddSub OAdd) (EVar vI) (ENum n1)) [TSymbol vI; TPlus; TNumber n1]); try reflexivity; try (cbn; lia).
    do 3 (apply R_incl; [lia|]).
    apply (R_bin (BAddSub OAdd) (EVar vI) (ENum n1) [TSymbol vI] [TNumber n1]).
    + do 4 (apply R_incl; [cbn; lia|]). constructor.
    + do 3 (apply R_incl; [cbn; lia|]). constructor.
Qed.
Example ex5_runs : exists st', rrun 8 ex5_p 40 (0,0) (r_init 0) = Done st' /\ r_out st' = [bs "1"; bs "2"; bs "9"]
  /\ reach (fun s => state s = Idle /\ outputs s = map OPrint [bs "1"; bs "2"; bs "9"]) ex5_s.
Proof.
  pose proof (fragment_simulation 8 ex5_p [] 40 (0,0) (r_init 0) ex5_s ex5_sim) as H.
  destruct (rrun 8 ex5_p 40 (0,0) (r_init 0)) as [pc st'|st'|er l st'|] eqn:E; try (vm_compute in E; discriminate).
  exists st'. split; [reflexivity|].
  assert (Ho : r_out st' = [bs "1"; bs "2"; bs "9"]).
  { vm_compute in E. inversion E. reflexivity. }
  split; [exact Ho|]. unfold after_step in H.
  eapply reach_bind; [exact H|]. intros s' [A B]. apply reach_now. split; [exact A|]. rewrite B, Ho. reflexivity.
Qed.

(* non-vacuity of (4) for READ / DATA / RESTORE:
   10 DATA 7, 8 / 20 READ I, J / 30 PRINT I + J; / 40 RESTORE / 50 READ J: PRINT J; *)
Definition ex6_lines := [HLine (bs "10 DATA 7, 8"); HLine (bs "20 READ I, J"); HLine (bs "30 PRINT I + J;"); HLine (bs "40 RESTORE"); HLine (bs "50 READ J: PRINT J;")].
Definition ex6_s : interp := set_state Running (snd (run_from_first_numbered_line (StoreProofs.run_state 50 init_interp ex6_lines))).
Definition vJ : bytes := [74%N].
Definition d78 : list data_elem := [DNum (f64_of_Z 7); DNum (f64_of_Z 8)].
Definition ex6_p : rprogram :=
  [(10%N, [SData d78]);
   (20%N, [SRead [(vI, []); (vJ, [])]]);
   (30%N, [SPrint [PExpr (XBin RAdd (XVar vI) (XVar vJ)); PSemi]]);
   (40%N, [SRestore]);
   (50%N, [SRead [(vJ, [])]; SPrint [PExpr (XVar vJ); PSemi]])].

Lemma ex6_line30 : LRen 8 [SPrint [PExpr (XBin RAdd (XVar vI) (XVar vJ)); PSemi]] [TPrint; TSymbol vI; TPlus; TSymbol vJ; TSemicolon].
Proof.
  apply LR_last.
  apply (SR_print 8 0 [] [PExpr (XBin RAdd (XVar vI) (XVar vJ)); PSemi] [MExpr (EBin (BAddSub OAdd) (EVar vI) (EVar vJ)); MSemi]
           [TSymbol vI; TPlus; TSymbol vJ; TSemicolon]); try reflexivity; try (cbn; lia).
  apply (IR_expr [] (EBin (BAddSub OAdd) (EVar vI) (EVar vJ)) [TSymbol vI; TPlus; TSymbol vJ] [MSemi] [TSemicolon]); [|reflexivity|].
  - do 3 (apply R_incl; [lia|]).
    apply (R_bin (BAddSub OAdd) (EVar vI) (EVar vJ) [TSymbol vI] [TSymbol vJ]).
    + do 4 (apply R_incl; [cbn; lia|]). constructor.
    + do 3 (apply R_incl; [cbn; lia|]). constructor.
  - apply IR_semi. apply IR_nil. reflexivity.
Qed.

Lemma ex6_line50 : LRen 8 [SRead [(vJ, [])]; SPrint [PExpr (XVar vJ); PSemi]] ([TRead; TSymbol vJ] ++ TColon :: [TPrint; TSymbol vJ; TSemicolon]).
Proof.
  apply LR_cons.
  - apply (SR_read 8 0 _ [vJ]). discriminate.
  - apply LR_last.
    apply (SR_print 8 0 [] [PExpr (XVar vJ); PSemi] [MExpr (EVar vJ); MSemi] [TSymbol vJ; TSemicolon]); try reflexivity; try (cbn; lia).
    apply (IR_expr [] (EVar vJ) [TSymbol vJ] [MSemi] [TSemicolon]); [apply R0_var | reflexivity|].
    apply IR_semi. apply IR_nil. reflexivity.
Qed.

Example ex6_sim : Sim 8 ex6_p [] (0, 0) (r_init 0) ex6_s.
Proof.
  apply (Sim_at 8 ex6_p [] 0 0 (r_init 0) ex6_s false).
  - split; try reflexivity.
    + repeat constructor.
    + intros li n stmts H.
      destruct li as [|[|[|[|[|li]]]]]; cbn in H; try (destruct li; discriminate); inversion H; subst; eexists; (split; [vm_compute; reflexivity|]).
      * apply LR_last. apply (SR_data 8 0 [] d78). reflexivity.
      * apply LR_last. apply (SR_read 8 0 [] [vI; vJ]). discriminate.
      * exact ex6_line30.
      * apply LR_last. apply SR_restore.
      * exact ex6_line50.
    + intros n H.
      assert (E : map fst (st_toks ex6_s) = [50%N; 40%N; 30%N; 20%N; 10%N]) by (vm_compute; reflexivity).
      cbn [map fst ex6_p In].
      destruct (N.eqb_spec 50 n); [subst; tauto|]. destruct (N.eqb_spec 40 n); [subst; tauto|].
      destruct (N.eqb_spec 30 n); [subst; tauto|].
      destruct (N.eqb_spec 20 n); [subst; tauto|]. destruct (N.eqb_spec 10 n); [subst; tauto|].
      exfalso. apply H.
      match goal with |- toks_get n (st_toks ?x) = None =>
        let v := eval vm_compute in (st_toks x) in change (st_toks x) with v end.
      cbn [toks_get].
      repeat match goal with |- context [N.eqb ?a n] => destruct (N.eqb_spec a n); [congruence|] end. reflexivity.
  - reflexivity.
  - split; intros name; reflexivity.
  - reflexivity.
  - split; [reflexivity | constructor].
  - constructor.
  - intros name x H. vm_compute in H. discriminate.
  - vm_compute. reflexivity.
  - exists 10%N, [SData d78], [TData d78], [TData d78].
    split; [reflexivity|]. split; [vm_compute; reflexivity|]. split; [reflexivity|]. split; [reflexivity|].
    apply LR_last. apply (SR_data 8 0 [] d78). reflexivity.
Qed.
Example ex6_runs : exists st', rrun 8 ex6_p 40 (0,0) (r_init 0) = Done st' /\ r_out st' = [bs "15"; bs "7"]
  /\ reach (fun s => state s = Idle /\ outputs s = map OPrint [bs "15"; bs "7"]) ex6_s.
Proof.
  pose proof (fragment_simulation 8 ex6_p [] 40 (0,0) (r_init 0) ex6_s ex6_sim) as H.
  destruct (rrun 8 ex6_p 40 (0,0) (r_init 0)) as [pc st'|st'|er l st'|] eqn:E; try (vm_compute in E; discriminate).
  exists st'. split; [reflexivity|].
  assert (Ho : r_out st' = [bs "15"; bs "7"]).
  { vm_compute in E. inversion E. reflexivity. }
  split; [exact Ho|]. unfold after_step in H.
  eapply reach_bind; [exact H|]. intros s' [A B]. apply reach_now. split; [exact A|]. rewrite B, Ho. reflexivity.
Qed.

(* non-vacuity: the manual's nested-loop example (NEXT I forgets the J loop)
   and a GOSUB in a colon line, run by the reference interpreter *)
Definition nx := XNum (f64_of_Z 1).
Example C03_example :
  let p : rprogram :=
    [(10%N, [SFor (bs "I") (XNum (f64_of_Z 1)) (XNum (f64_of_Z 2)) None]);
     (20%N, [SFor (bs "J") (XNum (f64_of_Z 1)) (XNum (f64_of_Z 2)) None]);
     (30%N, [SPrint [PExpr (XVar (bs "I")); PSemi; PExpr (XVar (bs "J"))]]);
     (40%N, [SNext (bs "I")]); (50%N, [SNext (bs "J")])] in
  transcript_of (run_ref 50 100 0 p) = ([bs "11" ++ [10%N]; bs "21" ++ [10%N]], Some (RNextWithoutFor, 50%N)).
Proof. vm_compute. reflexivity. Qed.

(* the order of events in FOR and GOSUB as regenerated from program.rs on this run (Gen/ProgramEvents.v, DESIGN 11.7):
   FOR forgets the old loop of its variable, THEN tests the loop cap, pushes the loop and assigns the counter; GOSUB tests
   the frame cap, THEN jumps, then pushes the return address — the order the reference interpreter and the simulation
   theorem above assume (re-entering a FOR with 32 loops open is no overflow; a 33rd GOSUB fails on the GOSUB's line) *)
Theorem C03_code_for_gosub_order :
  firstn 2 Gen.ProgramEvents.program_events =
  [("start_loop", ["forget-loop"; "cap-test:loop_stack==STACK_LIMIT:StackOverflow"; "push:loop_stack"; "set-variable"]);
   ("gosub_line_number", ["cap-test:stack==STACK_LIMIT:StackOverflow"; "goto"; "push:stack"])]%string.
Proof. reflexivity. Qed.
Theorem C03_model_for_gosub_order : forall sym a b c n name bs s,
  (forall u s1, remove_loop_with_name sym s = (Ok u, s1) -> length (loops s1) = stack_limit ->
     start_loop sym a b c s = (Err EStackOverflow None, s1)) /\
  (length (stack s) = stack_limit -> gosub_line_number n s = (Err EStackOverflow None, s)) /\
  (length (stack s) = stack_limit -> push_function_call name bs s = (Err EStackOverflow None, s)).
Proof. exact Proofs.ArraysTie.model_cap_order. Qed.

Print Assumptions C03_ref_for_runs_once.
Print Assumptions C03_ref_next_forgets_inner.
Print Assumptions C03_ref_undefined_variable.
Print Assumptions C03_ref_implicit_array.
Print Assumptions C03_ref_data_order.
Print Assumptions C03_expr_reference_is_fold.
Print Assumptions C03_expr_model_is_reference.
Print Assumptions C03_let_statement_simulates.
Print Assumptions C03_same_store_reads.
Print Assumptions C03_print_statement_simulates.
Print Assumptions C03_fragment_simulation.
Print Assumptions ex_runs.
Print Assumptions C03_run_simulates.
Print Assumptions C03_code_for_gosub_order.
Print Assumptions C03_model_for_gosub_order.
