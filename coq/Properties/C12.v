(* C12 — Spacing and letter case outside literal text never change meaning.
   Statements only; proofs are in Proofs/LexerCrunch.v and Proofs/DataProofs.v.

   [tokenize line skip] is the model of Tokenizer::new(line, skip) run to the
   end (tokens with byte ranges, or the tokens before an error and the error).
   [ins_at i w line] inserts byte [w] before byte [i]; [flip_at i line] changes
   the case of byte [i] when it is an ASCII letter.  Protected positions are
   computed from the tokenizer's own ranges: strictly inside a string literal,
   inside REM text, inside the item text of DATA.  [skip] is the length of the
   line-number prefix, so the statement text is everything from [skip] on. *)
From Coq Require Import List NArith ZArith Bool Relations.
From Abasic Require Import Model.Bytes Model.Num Model.Token Model.Data Model.Lexer Gen.Tables
     Proofs.LexerRanges Proofs.LexerCrunch Proofs.DataProofs.
Import ListNotations.
Local Open Scope nat_scope.

(* inserting a blank (space, tab, FF, CR) at any unprotected position *)
Theorem C12_insert : forall line skip ts i w,
  skip <= i <= length line -> is_basic_ws w = true ->
  tokenize line skip = TokOk ts -> protected_ins ts line i = false ->
  tokens_of (tokenize (ins_at i w line) skip) = Some (map fst ts).
Proof. exact crunch_insert. Qed.

(* ... and the ranges of the tokens move by exactly the inserted byte *)
Theorem C12_insert_ranges : forall line skip ts i w,
  skip <= i <= length line -> is_basic_ws w = true ->
  tokenize line skip = TokOk ts -> protected_ins ts line i = false ->
  tokenize (ins_at i w line) skip = TokOk (map (shift_r i) ts).
Proof. exact crunch_insert_ranges. Qed.

(* deleting a blank at any unprotected position *)
Theorem C12_delete : forall line skip ts' i w,
  skip <= i <= length line -> is_basic_ws w = true ->
  tokenize (ins_at i w line) skip = TokOk ts' ->
  protected_byte ts' (ins_at i w line) i = false ->
  tokens_of (tokenize line skip) = Some (map fst ts').
Proof. exact crunch_delete. Qed.

(* changing the case of any unprotected byte: same tokens, same ranges *)
Theorem C12_flip : forall line skip ts i,
  tokenize line skip = TokOk ts -> protected_flip ts line i = false ->
  tokenize (flip_at i line) skip = TokOk ts.
Proof. exact crunch_flip_ranges. Qed.

(* any finite sequence of such edits, each judged on the text it is applied to *)
Theorem C12_any : forall skip line line' ts,
  clos_refl_trans _ (edit skip) line line' -> tokenize line skip = TokOk ts ->
  tokens_of (tokenize line' skip) = Some (map fst ts).
Proof. exact crunch_edits. Qed.

(* DATA items: a blank where an item starts (after the keyword, after a comma,
   around a quoted item) or where it ends (before a comma, before the
   terminating colon, at the end of the text) changes no item.  [cs1] is the
   text before the blank, as whole characters; [dp_steps] is the parser state
   reached after it ([false]: not inside a quoted item). *)
Theorem C12_data : forall cs1 s2 w cur elems,
  Forall whole_char cs1 -> is_basic_ws w = true ->
  dp_steps cs1 false [] [] = Some (false, cur, elems) ->
  all_ws cur = true \/ sep_next (utf8_chars s2) = true ->
  fst (parse_data (concat cs1 ++ w :: s2)) = fst (parse_data (concat cs1 ++ s2)).
Proof. exact parse_data_blank. Qed.

(* the same for every Unicode white-space character, on character lists *)
Theorem C12_data_chars : forall cs1 cs2 w cur elems,
  char_ws w = true ->
  dp_steps cs1 false [] [] = Some (false, cur, elems) ->
  all_ws cur = true \/ sep_next cs2 = true ->
  fst (dp_run (cs1 ++ w :: cs2) false [] [] 0) = fst (dp_run (cs1 ++ cs2) false [] [] 0).
Proof. exact data_blank. Qed.

(* non-vacuity *)
Example C12_example :
  exists x,
    tokens_of (tokenize (bs "P R I N T 1 2 3") 0) = Some [TPrint; TNumber x]
    /\ tokens_of (tokenize (bs "print123") 0) = Some [TPrint; TNumber x]
    /\ tokens_of (tokenize (bs "PRINT 123") 0) = Some [TPrint; TNumber x].
Proof. exact ex_same_tokens. Qed.

Example C12_example_unprotected : unprot_everywhere (bs "PRINT 123") = true.
Proof. exact ex_unprotected. Qed.

Example C12_example_protected :
  prot_positions (bs "PRINT ""a b""") = [7; 8; 9; 10]
  /\ prot_positions (bs "R E M x") = [5; 6; 7]
  /\ prot_positions (bs "DATA 1, 2:PRINT") = [4; 5; 6; 7; 8; 9].
Proof. split; [exact ex_string_protected|split; [exact ex_rem_protected|exact ex_data_protected]]. Qed.

Example C12_example_data :
  fst (parse_data (bs " 1 , ""a"" , b c  : PRINT")) = fst (parse_data (bs "1,""a"",b c:PRINT")).
Proof. exact padded_equals_tight. Qed.

Print Assumptions C12_insert.
Print Assumptions C12_insert_ranges.
Print Assumptions C12_delete.
Print Assumptions C12_flip.
Print Assumptions C12_any.
Print Assumptions C12_data.
Print Assumptions C12_data_chars.
