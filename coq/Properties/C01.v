(* C01 — No host interaction sequence can crash or wedge the interpreter.
   Statements only; proofs are in Proofs/Safety.v.

   In the model every place where the Rust can panic (unwrap / expect / index /
   assert / explicit panic!) is an explicit [Panic tag] result, so "never
   panics" is a theorem with content.  [step] performs a call only when the
   turn-taking protocol allows it ([legal]); [call_result] is the outcome of
   that call; [run_results] collects the outcomes along a history. *)
From Coq Require Import List NArith ZArith Bool.
From Abasic Require Import Model.Bytes Model.Num Model.Token Model.Data Model.Lexer Gen.Tables
     Model.State Model.Eval Model.Interp Proofs.Monad Proofs.Frames Proofs.StoreProofs Proofs.Safety.
Import ListNotations.

(* Every history of host calls from a fresh interpreter -- any lines, any
   replies, any seeds, any interleaving of continue / break / replace -- no
   call panics. *)
Theorem C01_no_panic : forall fuel oracle ops,
  Forall (fun r => forall p, r <> Panic p) (run_results fuel (fresh oracle) ops).
Proof. exact session_no_panic. Qed.
Check C01_no_panic : forall fuel oracle ops,
  Forall (fun r => forall p, r <> Panic p) (run_results fuel (fresh oracle) ops).

(* the invariant behind it: every location the state holds (cursor,
   breakpoint, return addresses, loop heads, function bodies, DATA chunks)
   names an existing line, both store indexes agree, every array has as many
   cells as its dimensions say *)
Theorem C01_inv : forall fuel s op, wf s ->
  (forall p, fst (call_result fuel s op) <> Panic p) /\ wf (snd (step fuel s op)).
Proof. exact step_no_panic. Qed.

Theorem C01_history : forall fuel ops s, wf s ->
  Forall (fun r => forall p, r <> Panic p) (run_results fuel s ops) /\ wf (run_state fuel s ops).
Proof. exact history_no_panic. Qed.

(* Every failure is an error VALUE: afterwards the interpreter is idle, still
   accepts lines, and the error renders as source line plus caret (the
   rendering itself cannot panic). *)
Theorem C01_errors_are_values : forall fuel s op e l s1,
  wf s -> legal s op = true -> call_result fuel s op = (Err e l, s1) ->
  state s1 = Idle /\ exists ls, render_caret e l (line_of op) s1 = Ok ls.
Proof. exact errors_are_values. Qed.

Theorem C01_still_accepts_lines : forall fuel s op e l s1 text,
  wf s -> legal s op = true -> call_result fuel s op = (Err e l, s1) ->
  legal (drained s op s1) (HLine text) = true.
Proof. exact error_then_line_accepted. Qed.

(* [call_result] is what [step] computes *)
Theorem C01_call_result_is_step : forall fuel s op,
  snd (step fuel s op) = drained s op (snd (call_result fuel s op)).
Proof. exact step_call_result. Qed.

(* Partial (see DESIGN 6 C01 L): "never exhausts the native stack" rests on
   the nesting cap MAX_NESTING (regenerated from program.rs) being enforced
   at every recursive entry -- it is part of the model ([evaluate_expression],
   [evaluate_statement]) and of the correspondence -- plus stack probes in
   fresh processes at and far beyond the cap; frame sizes are a compiler
   artefact and are not modelled.  [OutOfFuel] is a model artefact: the
   correspondence treats it as disagreement, never as agreement. *)

Print Assumptions C01_no_panic.
Print Assumptions C01_inv.
Print Assumptions C01_history.
Print Assumptions C01_errors_are_values.
Print Assumptions C01_still_accepts_lines.
Print Assumptions C01_call_result_is_step.
