(* C17 — Tracing and warnings never change what a program does.
   Statements only; proofs are in Proofs/FlagsSim.v. *)
From Coq Require Import List NArith ZArith Bool.
From Abasic Require Import Model.Bytes Model.Num Model.Token Model.Data Model.Lexer Gen.Tables
     Model.State Model.Eval Model.Interp Proofs.Monad Proofs.Frames Proofs.StoreProofs Proofs.Safety Proofs.FlagsSim
     Proofs.TurnProofs Proofs.TraceProofs Proofs.ExprSem Proofs.WarnProofs.
Import ListNotations.

(* [sim s t]: every field equal except the two flags, and the pending output
   equal after dropping Trace and Warning records ([erase]).
   [obs_agree]: both calls illegal, or rows with equal outcome, state, caret,
   error text, cursor-read count and equal output after [erase].
   [ops_match]: the same calls, except that HFlags may carry other booleans. *)

(* All four configurations, any session: identical observations after
   erasure, states equal up to the flags -- at every call. *)
Theorem C17_transparent : forall fuel oracle w1 b1 w2 b2 ops,
  Forall2 obs_agree (observe fuel (fresh oracle) (HFlags w1 b1 :: ops))
                    (observe fuel (fresh oracle) (HFlags w2 b2 :: ops))
  /\ sim (run_state fuel (fresh oracle) (HFlags w1 b1 :: ops))
         (run_state fuel (fresh oracle) (HFlags w2 b2 :: ops)).
Proof. exact C17_four_configurations. Qed.
Check C17_transparent : forall fuel oracle w1 b1 w2 b2 ops,
  Forall2 obs_agree (observe fuel (fresh oracle) (HFlags w1 b1 :: ops))
                    (observe fuel (fresh oracle) (HFlags w2 b2 :: ops))
  /\ sim (run_state fuel (fresh oracle) (HFlags w1 b1 :: ops))
         (run_state fuel (fresh oracle) (HFlags w2 b2 :: ops)).

(* from any two related states, with flags switched at any points (by field
   or differently in the two runs) *)
Theorem C17_history : forall fuel ops1 ops2 s t, ops_match ops1 ops2 -> sim s t ->
  Forall2 obs_agree (observe fuel s ops1) (observe fuel t ops2)
  /\ sim (run_state fuel s ops1) (run_state fuel t ops2).
Proof. exact C17_transparent_history. Qed.

(* the simulation holds for each evaluator, for every outcome *)
Theorem C17_statement : forall fuel n, respects (evaluate_statement fuel n).
Proof. exact respects_evaluate_statement. Qed.
Theorem C17_expression : forall fuel n, respects (evaluate_expression fuel n).
Proof. exact respects_evaluate_expression. Qed.

(* TRACE / NOTRACE change only the tracing flag *)
Theorem C17_cmds : forall fuel s, state s = Idle ->
  let r1 := start_evaluating fuel (bs "TRACE") s in
  let r2 := start_evaluating fuel (bs "NOTRACE") s in
  fst r1 = Ok tt /\ fst r2 = Ok tt
  /\ sim (snd r1) (snd r2)
  /\ enable_tracing (snd r1) = true /\ enable_tracing (snd r2) = false
  /\ enable_warnings (snd r1) = enable_warnings s /\ enable_warnings (snd r2) = enable_warnings s.
Proof. exact trace_cmds_only_flag. Qed.

(* The trace is the path.  With tracing on, a host call that executes a
   statement of numbered line n pushes `Trace n` as its FIRST record, and every
   other Trace record of the call names n too (C09: an IF's selected statement
   traces again): collapsed, the call's trace is [n]; a call on the immediate
   line pushes no Trace record.  So the Trace records of a run, read in order
   with immediate repeats collapsed, name the numbered lines execution passes
   through, call by call. *)
Theorem C17_trace_first : forall fuel s n t,
  wf s -> enable_tracing s = true -> loc_line (loc s) = Some n ->
  nth_error (cur_toks s) (loc_idx (loc s)) = Some t ->
  exists rest, outputs (snd (run_next_statement (S fuel) s)) = outputs s ++ OTrace n :: rest
               /\ Forall (trace_ok (Some n)) rest /\ (length (filter shows rest) <= 1)%nat.
Proof. exact traced_turn. Qed.

Theorem C17_trace_is_path : forall fuel s n t,
  wf s -> enable_tracing s = true -> loc_line (loc s) = Some n ->
  nth_error (cur_toks s) (loc_idx (loc s)) = Some t ->
  exists new, outputs (snd (run_next_statement (S fuel) s)) = outputs s ++ new /\ collapse (traces new) = [n].
Proof. exact traced_turn_path. Qed.

Theorem C17_no_trace_on_immediate : forall fuel s,
  wf s -> loc_line (loc s) = None ->
  exists new, outputs (snd (run_next_statement fuel s)) = outputs s ++ new /\ filter is_trace new = [].
Proof. exact immediate_turn_untraced. Qed.

(* When a warning is issued (Proofs/WarnProofs.v).  [warn] is called at two
   sites only.  At each, from ANY state: exactly one Warning record (with the
   current line) is appended if warnings are on and the name was never assigned
   / the array does not exist, none otherwise; it comes before the value; no
   other field changes. *)
Theorem C17_variable_read_warns : forall sym s,
  variable_read sym s
  = (Ok (match alist_get sym (variables s) with Some v => v | None => default_value sym end),
     set_outputs (outputs s ++ warning_if (enable_warnings s && negb (alist_has sym (variables s)))
                                          (undeclared_variable_msg sym) s) s).
Proof. exact variable_read_warns. Qed.

Theorem C17_array_touch_warns : forall name s,
  maybe_warn_undeclared_array name s
  = (Ok tt, set_outputs (outputs s ++ warning_if (enable_warnings s && negb (alist_has name (arrays s)))
                                                  (undeclared_array_msg name) s) s).
Proof. exact array_touch_warns. Qed.

(* every expression term that is a variable token — not followed by "(" and
   not a bound function parameter — is such a read *)
Theorem C17_term_reads_variable : forall fuel (rec : M value) s toks sym i r o,
  fst (cur_tokens s) = Ok toks -> nth_error toks i = Some (TSymbol sym) ->
  (forall t, nth_error toks (S i) = Some t -> t <> TLeftParen) ->
  find_in_frames sym (rev (stack s)) = None ->
  expression_term fuel rec (at_idx s i r o) = variable_read sym (at_idx s (S i) (S (S r)) o).
Proof. exact term_reads_variable. Qed.

(* Whole-run exactness (every Warning record of a run corresponds to such a
   read, in order) is validated by the correspondence, which compares the
   Warning records themselves with the model's, and by the oracle. *)

Print Assumptions C17_transparent.
Print Assumptions C17_history.
Print Assumptions C17_statement.
Print Assumptions C17_expression.
Print Assumptions C17_cmds.
Print Assumptions C17_trace_first.
Print Assumptions C17_trace_is_path.
Print Assumptions C17_no_trace_on_immediate.
Print Assumptions C17_variable_read_warns.
Print Assumptions C17_array_touch_warns.
Print Assumptions C17_term_reads_variable.
