(* C13 — Every token's reported source range is exact.
   Statements only; proofs are in Proofs/LexerRanges.v. *)
From Coq Require Import List NArith ZArith Bool Arith.
From Abasic Require Import Model.Bytes Model.Num Model.Token Model.Data Model.Lexer Gen.Tables
     Proofs.LexerRanges Proofs.LexerRetok.
Import ListNotations.
Local Open Scope nat_scope.

(* ranges lie within the line, are non-empty, strictly ordered, non-overlapping *)
Theorem C13_ranges : forall line skip ts, skip <= length line -> tokenize line skip = TokOk ts ->
  ranges_ok skip (length line) ts.
Proof. exact tokenize_ranges_ok. Qed.
Check C13_ranges : forall line skip ts, skip <= length line -> tokenize line skip = TokOk ts ->
  ranges_ok skip (length line) ts.

Theorem C13_ranges_sorted : forall lo hi ts, ranges_ok lo hi ts ->
  Sorted.StronglySorted (fun x y : ranged => snd (snd x) <= fst (snd y)) ts.
Proof. exact ranges_ok_sorted. Qed.

(* they begin and end on non-blank bytes (REM extends to the end of the line,
   DATA to the end of its item text) *)
Theorem C13_first_nonblank : forall line skip ts, skip <= length line -> tokenize line skip = TokOk ts ->
  forall t a b, In (t, (a, b)) ts -> exists c, nth_error line a = Some c /\ is_basic_ws c = false.
Proof. exact tokenize_first_nonblank. Qed.

Theorem C13_last_nonblank : forall line skip ts, skip <= length line -> tokenize line skip = TokOk ts ->
  forall t a b, In (t, (a, b)) ts -> (forall c, t <> TRemark c) -> (forall d, t <> TData d) ->
  exists c, nth_error line (b - 1) = Some c /\ is_basic_ws c = false.
Proof. exact tokenize_last_nonblank. Qed.

Theorem C13_remark_end : forall line skip ts, skip <= length line -> tokenize line skip = TokOk ts ->
  forall c a b, In (TRemark c, (a, b)) ts -> b = length line.
Proof. exact tokenize_remark_end. Qed.

(* they lie on character boundaries of the (valid UTF-8) line *)
Theorem C13_boundaries : forall line skip ts, valid_utf8 line = true -> char_boundary line skip = true ->
  skip <= length line -> tokenize line skip = TokOk ts ->
  forall t a b, In (t, (a, b)) ts -> char_boundary line a = true /\ char_boundary line b = true.
Proof. exact tokenize_char_boundaries. Qed.

(* a line that does not tokenize: the error position lies within the line and
   after every token that was produced *)
Theorem C13_error : forall line skip ts e, skip <= length line -> tokenize line skip = TokErr ts e ->
  ranges_ok skip (length line) ts
  /\ (let '(a, b) := error_range e (length line) in skip <= a /\ a < length line /\ a <= b)
  /\ (forall t r, In (t, r) ts -> snd r <= fst (error_range e (length line))).
Proof. exact tokenize_err_ranges_ok. Qed.

(* the iterator's fuel is never the reason it stops *)
Theorem C13_fuel : forall fuel pos s acc, length s < fuel ->
  tokenize_from fuel pos s acc = tokenize_from (S (length s)) pos s acc.
Proof. exact tokenize_from_fuel. Qed.

(* tokenizing the text of a range on its own yields exactly that one token —
   for every line whatsoever (also the tokens in front of an error).  Every
   matcher is prefix-stable: what it decides it decides from the bytes it
   consumes (the look-aheads included: the keyword look-ahead inside
   identifiers, the second character of `<=` `<>` `>=` behind blanks, blanks
   inside numbers, the DATA item parser stopping at a colon as at the end), and
   a matcher that does not match a text matches no prefix of it
   (Proofs/LexerRetok.v). *)
Theorem C13_retok : forall line skip ts, skip <= length line -> tokenize line skip = TokOk ts ->
  Forall (fun r => tokenize (slice line (fst (snd r)) (snd (snd r))) 0
                   = TokOk [(fst r, (0, snd (snd r) - fst (snd r)))]) ts.
Proof. exact retok_ok. Qed.

Theorem C13_retok_before_error : forall line skip ts e, skip <= length line -> tokenize line skip = TokErr ts e ->
  Forall (fun r => tokenize (slice line (fst (snd r)) (snd (snd r))) 0
                   = TokOk [(fst r, (0, snd (snd r) - fst (snd r)))]) ts.
Proof. exact retok_err. Qed.

Example C13_example :
  tokens_of (tokenize (bs "  go to 1 0:?""x""") 0)
  = Some [TGoto; TNumber (f64_of_Z 10); TColon; TQuestionMark; TString (bs "x")]
  /\ match tokenize (bs "  go to 1 0:?""x""") 0 with
     | TokOk ts => map snd ts = [(2, 7); (8, 11); (11, 12); (12, 13); (13, 16)]
     | _ => False
     end.
Proof. vm_compute. split; reflexivity. Qed.

Print Assumptions C13_ranges.
Print Assumptions C13_ranges_sorted.
Print Assumptions C13_first_nonblank.
Print Assumptions C13_last_nonblank.
Print Assumptions C13_remark_end.
Print Assumptions C13_boundaries.
Print Assumptions C13_error.
Print Assumptions C13_fuel.
Print Assumptions C13_retok.
Print Assumptions C13_retok_before_error.
