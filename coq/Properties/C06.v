(* C06 — The static checker and the interpreter agree on what is an error.
   Statements only; proofs are in Proofs/AgreeProofs.v and Proofs/AnalyzerFrame.v.

   PARTIAL.  The two full statements (C06_sound: no analysis error and unique,
   executed-before-use definitions => no run ever fails with a syntax error, a
   type mismatch or an undefined jump; C06_complete: an error on a straight-
   line line => executing that line fresh fails) need the AST-level simulation
   between the two token walkers (DESIGN.md 6 C06, P); they are decided on every
   run by execution instead: analyzer verdict vs forced runs along both
   branches, straight-line lines executed fresh, on the implementation, with
   the model tied to both tools by the analyzer and run correspondences.
   What IS proved, for all inputs: the facts both directions rest on, and
   SOUNDNESS FOR EXPRESSIONS (C06_expression_check_sound, Proofs/CheckSound.v):
   a heterogeneous lock-step argument between the two token walkers, for every
   token stream and cursor position — no syntax tree, no well-formedness
   assumption. *)
From Coq Require Import List NArith ZArith Bool.
From Coq Require String.
From Abasic Require Import Model.Bytes Model.Num Model.Token Model.Data Model.Lexer Gen.Tables
     Model.State Model.Eval Model.Interp Model.Analyzer Proofs.Monad Proofs.Frames Proofs.StoreProofs
     Proofs.Safety Proofs.AnalyzerFrame Proofs.AnalyzerProofs Proofs.AgreeProofs Proofs.Caps Proofs.CheckSound Proofs.CheckAgree Proofs.AnalyzerFns Proofs.AnalyzerSafety Proofs.AnalyzerTermination
     Proofs.PlainToks Proofs.ProgSound Proofs.ProgSoundElse Proofs.LineAgree Proofs.LineComplete.
Import ListNotations.
Local Open Scope nat_scope.

(* One grammar: the same precedence tiers, operator classes and associativity
   in both expression walkers, the same statement keywords in both dispatchers
   (tables regenerated from the four Rust files on every run). *)
Theorem C06_same_expression_grammar : analyzer_expr_tiers = expr_tiers.
Proof. exact same_expression_grammar. Qed.

Theorem C06_same_statement_keywords :
  stmt_keywords analyzer_stmt_dispatch
  = filter (fun k => negb (String.eqb k "Else")) (stmt_keywords stmt_dispatch).
Proof. exact same_statement_keywords. Qed.

(* Jump targets: the checker accepts a numeric target exactly when the
   interpreter's jump to it succeeds, on any two states with the same store ... *)
Theorem C06_jump_targets : forall x toks st s,
  fst (cur_tokens (fst st)) = Ok toks ->
  nth_error toks (loc_idx (loc (fst st))) = Some (TNumber x) ->
  line_exists (fst st) (loc (fst st)) ->
  st_toks s = st_toks (fst st) ->
  let n := Z.to_N (f64_to_u64_sat x) in
  (fst (an_goto_or_gosub st) = Ok tt <-> fst (goto_line_number n s) = Ok tt)
  /\ (fst (an_goto_or_gosub st) = Err EUndefinedStatement None
      <-> fst (goto_line_number n s) = Err EUndefinedStatement None).
Proof. exact jump_targets_agree. Qed.

(* ... and the store the checker consults IS the program's: statement analysis,
   expression analysis and the whole walk change only cursor-like fields. *)
Theorem C06_analysis_keeps_store : forall fuel n st,
  AF (fst st) (fst (snd (analyze_statement fuel n st))).
Proof. intros fuel n st. exact (af_analyze_statement fuel n st). Qed.

(* Kinds: the checker accepts an assignment exactly when the value's static
   kind is the kind of the target's name; the interpreter stores exactly when
   the value's dynamic kind is; comparison and logical results are numbers. *)
Theorem C06_checker_assignment : forall lv t st,
  fst (an_assign lv t st) = Ok tt <-> t = type_of_name (alv_sym lv).
Proof. exact checker_assignment_rule. Qed.

Theorem C06_interpreter_assignment : forall name v s,
  fst (variables_set name v s) = Ok tt <-> kind_of_value v = type_of_name name.
Proof. exact interpreter_assignment_rule. Qed.

Theorem C06_comparisons_are_numbers : forall op a b s v s',
  eval_eq op a b s = (Ok v, s') -> kind_of_value v = TyNumber.
Proof. exact comparison_results_are_numbers. Qed.

(* non-vacuity, by evaluation of both tools on the model: an accepted program
   that runs clean, a rejected straight-line line that fails fresh, and the two
   repaired defects (comparison typed by its left operand; DEF body unchecked) *)
Definition errors_of (text : String.string) : nat :=
  length (filter (fun m => match m with MError _ _ _ => true | _ => false end)
                 (an_messages (analyze 200 (bs text)))).

Example C06_example :
  errors_of "10 X = 1 : PRINT X" = 0
  /\ errors_of "10 A = ""hi""" = 1
  /\ errors_of "20 S$ = S$ = T$" = 1
  /\ errors_of "30 X = S$ = T$" = 0
  /\ errors_of "40 X = NOT S$" = 0
  /\ errors_of "10 DEF F$(X) = X : A$ = F$(1)" = 1
  /\ errors_of "10 GOTO 20" = 1.
Proof. vm_compute. repeat split. Qed.

(* Soundness of the checker on expressions.  Take ANY stored program and
   immediate line, ANY cursor position, ANY nesting level and fuels, an
   interpreter state [s] that satisfies the name-suffix typing invariant of C16
   ([caps_inv]: every reachable state does) and an analyzer state [sa] looking
   at the same tokens through the same cursor, neither holding user-defined
   functions ([R s sa]).  If the expression analyzer accepts what stands at
   the cursor and says it has type t, then the evaluator, on the same tokens,
   - returns a value of type t, leaves its cursor where the analyzer left its
     own, and keeps the invariant; or
   - fails with an error that is NEITHER a syntax error NOR a type mismatch
     (division by zero, bad subscript, illegal quantity, out of memory ...).
   (The remaining answers are the model's own: out of fuel, oracle miss for ^,
   and the panic tags, which C01 shows unreachable.) *)
Theorem C06_expression_check_sound : forall f1 f2 n s sa acc t sa' acc',
  R s sa -> analyze_expression f2 n (sa, acc) = (Ok t, (sa', acc')) ->
  match evaluate_expression f1 n s with
  | (Ok v, s') => kind v = t /\ loc s' = loc sa' /\ caps_inv s'
  | (Err e _, _) => benign e
  | _ => True
  end.
Proof. exact checked_expression_does_not_fail_on_types. Qed.

(* ... and for the assignment (scalar or array cell, any subscripts) and the
   PRINT statement (any item list): accepted by the statement analyzer at the
   cursor => executing it there stores / prints, or fails with an error that is
   neither a syntax error nor a type mismatch *)
Theorem C06_assignment_check_sound : forall f1 f2 nest sym s sa acc sa' acc',
  R s sa -> an_assignment f2 nest sym (sa, acc) = (Ok tt, (sa', acc')) ->
  stmt_ok (evaluate_assignment_statement f1 nest sym s).
Proof. exact checked_assignment_does_not_fail_on_types. Qed.

Theorem C06_print_check_sound : forall f1 f2 nest s sa acc sa' acc',
  R s sa -> an_print f2 nest (sa, acc) = (Ok tt, (sa', acc')) ->
  stmt_ok (evaluate_print_statement f1 nest s).
Proof. exact checked_print_does_not_fail_on_types. Qed.

(* ... and for EVERY statement that neither branches nor jumps, at the level of
   the two dispatchers ([edispatch] / [adispatch] are the dispatch tables of
   evaluate_statement_body / an_statement_body, by reflexivity): whichever of
   v = e, LET, PRINT, ?, DIM, FOR..TO..STEP, READ, RESTORE, REM, DATA or ":" the
   cursor has just passed, if the checker accepts the statement the
   interpreter executes it without a syntax error or a type mismatch and the
   two cursors are together again behind it ([sound]: Proofs/CheckSound.v) *)
Theorem C06_straight_statement_sound : forall f1 f2 nest rec arec t, straight_head t = true ->
  sound (fun _ _ => True) (edispatch f1 nest rec t) (adispatch f2 nest arec t).
Proof. exact straight_statement_sound. Qed.

Theorem C06_dispatchers : forall f nest rec arec,
  evaluate_statement_body f nest rec =
    (tr <- get enable_tracing ;;
     (if tr then l <- get_line_number ;; match l with Some n => push_output (OTrace n) | None => ret tt end else ret tt) ;;;
     t <- next_token ;; edispatch f nest rec t)
  /\ an_statement_body f nest arec = (t <-- lift next_token ;; adispatch f nest arec t).
Proof. intros. split; reflexivity. Qed.

(* THE OTHER DIRECTION (Proofs/CheckAgree.v).  [agree] strengthens [sound]:
   besides the clause above, whenever the interpreter SUCCEEDS from a related
   state the checker does not report an error from there (it may still run out
   of fuel: that is a different outcome and is excluded by C07's fuel bounds),
   and when both succeed the kind of the value is the type the checker
   computed and the two cursors are together again.  Over every token stream,
   for expressions ... *)
Theorem C06_expression_check_agrees : forall f1 f2 n,
  agree K (evaluate_expression f1 n) (analyze_expression f2 n).
Proof. exact expression_check_agrees. Qed.

(* ... and for every statement that neither branches nor jumps *)
Theorem C06_straight_statement_agrees : forall f1 f2 nest rec arec t, straight_head t = true ->
  agree (fun _ _ => True) (edispatch f1 nest rec t) (adispatch f2 nest arec t).
Proof. exact straight_statement_agrees. Qed.

(* spelled out: what the interpreter evaluated / executed is not rejected *)
Theorem C06_evaluated_expression_is_not_rejected : forall f1 f2 n s sa acc v s',
  R s sa -> evaluate_expression f1 n s = (Ok v, s') ->
  forall e l st, analyze_expression f2 n (sa, acc) <> (Err e l, st).
Proof. exact evaluated_expression_is_not_rejected. Qed.

Theorem C06_executed_statement_is_not_rejected : forall f1 f2 nest rec arec t s sa acc u s', straight_head t = true ->
  R s sa -> edispatch f1 nest rec t s = (Ok u, s') ->
  forall e l st, adispatch f2 nest arec t (sa, acc) <> (Err e l, st).
Proof. exact executed_statement_is_not_rejected. Qed.

(* WHOLE PROGRAMS (Proofs/ProgSound.v).  [analyze fuel text] is the checker on a
   program text; [pass1_of' text] its first pass, whose [p_prog] holds the
   stored program.  If the analysis reports no error (with the fuel the
   totality theorem of C05 asks for) and no line of the program contains an
   ELSE, INPUT or DEF token ([clean_program]), then from ANY idle interpreter
   that holds this program and satisfies the typing invariant of C16, RUN and
   EVERY turn of the run after it — programs that loop for ever included —
   never fails with a syntax error, a type mismatch or a jump to an undefined
   line ([benign]: the error is none of those).  IF..THEN nested to any depth,
   GOTO, GOSUB / RETURN, FOR / NEXT, END, STOP, and every straight-line
   statement are covered; the invariant of the run says that the cursor, every
   return address and every loop start are positions from which the checker's
   own walk over the rest of the line succeeds. *)
Theorem C06_program_sound : forall fuel fi text,
  line_bound text < fuel ->
  forallb (fun msg => negb (is_error_msg msg)) (an_messages (analyze fuel text)) = true ->
  clean_program (st_toks (p_prog (pass1_of' text))) ->
  forall line s0, state s0 = Idle -> st_toks s0 = st_toks (p_prog (pass1_of' text)) ->
    st_keys s0 = st_keys (p_prog (pass1_of' text)) ->
    caps_inv s0 -> command_of line = Some CRun ->
    match start_evaluating fi line s0 with
    | (Ok _, s1) => forall s, Reach fi s1 s -> state s = Running -> turn_ok fi s
    | (Err e _, _) => benign e
    | _ => True
    end.
Proof. exact program_sound. Qed.

(* ... AND WITH ELSE (Proofs/ProgSoundElse.v): the same theorem for programs whose
   lines may contain ELSE anywhere — nested IF .. THEN .. ELSE to any depth,
   clauses that are line numbers, transfers, loops, empty statements —; only
   INPUT and DEF tokens are excluded ([clean2_program]).  A position the
   interpreter can come to is accepted by the checker's walk or holds an ELSE
   behind a THEN with no ":" in between (the dispatcher abandons the line
   there); the end of a clause is a position after which the line goes on as
   the checker saw it; the scan of a false IF is followed along the checker's
   own run over the same tokens, everything a non-branching statement consumes
   being neither ELSE nor ":" (Proofs/PlainToks.v).  The proof needs the IF
   scan as repaired by fix cf302e8 (found by this proof's first attempt). *)
Theorem C06_program_sound_else : forall fuel fi text,
  line_bound text < fuel ->
  forallb (fun msg => negb (is_error_msg msg)) (an_messages (analyze fuel text)) = true ->
  clean2_program (st_toks (p_prog (pass1_of' text))) ->
  forall line s0, state s0 = Idle -> st_toks s0 = st_toks (p_prog (pass1_of' text)) ->
    st_keys s0 = st_keys (p_prog (pass1_of' text)) ->
    caps_inv s0 -> command_of line = Some CRun ->
    match start_evaluating fi line s0 with
    | (Ok _, s1) => forall s, Reach fi s1 s -> state s = Running -> turn_ok fi s
    | (Err e _, _) => benign e
    | _ => True
    end.
Proof. exact program_sound_else. Qed.

(* ... AND WITH INPUT (Proofs/ProgSoundElse.v): only DEF tokens are excluded, and the
   run includes the replies the host gives while the program waits.  An INPUT
   goes back to its own token and is re-executed as a statement of its own when
   the reply arrives (again after REENTER), wherever it stands: the position of
   an INPUT that is the clause of an IF is one more kind of place where
   execution may stand (InputOK: the statement the checker accepted there, at
   whatever nesting, with the clause end behind it), and the tokens of its
   target are expression tokens, so the rewind finds this INPUT and no other. *)
Theorem C06_program_sound_input : forall fuel fi text,
  line_bound text < fuel ->
  forallb (fun msg => negb (is_error_msg msg)) (an_messages (analyze fuel text)) = true ->
  nodef_program (st_toks (p_prog (pass1_of' text))) ->
  forall line s0, state s0 = Idle -> st_toks s0 = st_toks (p_prog (pass1_of' text)) ->
    st_keys s0 = st_keys (p_prog (pass1_of' text)) ->
    caps_inv s0 -> command_of line = Some CRun ->
    match start_evaluating fi line s0 with
    | (Ok _, s1) => forall s, ReachI fi s1 s -> state s = Running -> turn_ok fi s
    | (Err e _, _) => benign e
    | _ => True
    end.
Proof. exact program_sound_input. Qed.

(* THE CONVERSE CLAUSE FOR A WHOLE LINE (Proofs/LineAgree.v).  A line none of whose tokens is IF, THEN, ELSE, GOTO,
   GOSUB, RETURN, NEXT, END, STOP, INPUT or DEF; interpreter and checker on the same program with their cursors at the
   same place of that line, the interpreter's runtime state typed and no function defined (a fresh state is one):
   if the interpreter executes the statements that remain on the line one after another, each successfully
   ([LineRun]), the checker's walk over the rest of the line reports no error.  [walk_line] is the function whose
   [Some msg] answers are the Error messages of the analysis.  Read the other way round: an error the analysis
   reports on a straight line means that executing that line fails. *)
Theorem C06_straight_line_complete : forall fi fa k m s s', LineRun fi s s' ->
  forall sa acc, R s sa -> straight_line (cur_line s) = true ->
  match walk_line fa k m (sa, acc) with
  | (Ok (Some _), _) => False
  | _ => True
  end.
Proof. exact straight_line_complete. Qed.

Theorem C06_straight_line_error_fails : forall fi fa k m s sa acc msg st',
  R s sa -> straight_line (cur_line s) = true ->
  walk_line fa k m (sa, acc) = (Ok (Some msg), st') -> ~ exists s', LineRun fi s s'.
Proof. exact straight_line_error_fails. Qed.

(* the same over the host's turns: [HostLine fi s] - the host calls the interpreter turn after turn while statements
   remain on the current line, and every one of these turns succeeds *)
Theorem C06_host_line_complete : forall fi fa s, HostLine fi s ->
  forall k m sa acc, R s sa -> straight_line (cur_line s) = true ->
  match walk_line fa k m (sa, acc) with
  | (Ok (Some _), _) => False
  | _ => True
  end.
Proof. exact host_line_complete. Qed.

(* ... and over the analysis of a whole program text (Proofs/LineComplete.v): every Error message of the analysis of
   a program without DEF tokens is a tokenization error of pass 1 (the line was never stored) or was produced by the
   walk on a stored line ln; if that line is straight, executing it fails - from EVERY interpreter state that holds
   the program, stands at the first token of line ln, is typed and has no function defined (a fresh state is one). *)
Theorem C06_reported_error_means_failure : forall fuel text,
  line_bound text < fuel ->
  nodef_program (st_toks (p_prog (pass1_of' text))) ->
  forall msg, In msg (an_messages (analyze fuel text)) -> is_error_msg msg = true ->
  In msg (p_msgs (pass1_of' text))
  \/ exists ln ts, toks_get ln (st_toks (p_prog (pass1_of' text))) = Some ts
       /\ (straight_line ts = true ->
           forall fi s, st_toks s = st_toks (p_prog (pass1_of' text)) -> st_keys s = st_keys (p_prog (pass1_of' text)) ->
             immediate s = [] -> loc s = mkloc (Some ln) 0 -> caps_inv s -> functions s = [] ->
             (~ exists s', LineRun fi s s') /\ ~ HostLine fi s).
Proof. exact reported_error_means_failure. Qed.

(* a failing statement of the line is a failing turn of the host loop *)
Theorem C06_statement_failure_is_turn_failure : forall fi s s1 e l s2,
  has_next_token (set_state Running s) = (Ok true, s1) -> evaluate_statement fi 0 s1 = (Err e l, s2) ->
  run_next_statement fi s = (Err e l, s2).
Proof. exact turn_fails_with_statement. Qed.

Theorem C06_turn_success_is_statement_success : forall fi s s1 s',
  has_next_token (set_state Running s) = (Ok true, s1) -> run_next_statement fi s = (Ok tt, s') ->
  exists s2, evaluate_statement fi 0 s1 = (Ok tt, s2).
Proof. exact turn_ok_statement_ok. Qed.

(* what an accepted expression is made of: operands, operators, parentheses, commas *)
Theorem C06_expression_tokens : forall f n st t st',
  analyze_expression f n st = (Ok t, st') -> PL exprtok (fst st) (fst st').
Proof. intros f n. exact (apl_analyze_expression exprtok (fun t H => H) token_eqb_exprtok f n). Qed.

(* its core: one turn from a state that satisfies the invariant *)
Theorem C06_turn_sound : forall fa ptoks pkeys,
  (forall n ts, toks_get n ptoks = Some ts -> clean_line ts = true) ->
  (forall n, toks_get n ptoks <> None -> AccAt fa ptoks pkeys (mkloc (Some n) 0)) ->
  (forall n, In n pkeys -> toks_get n ptoks <> None) ->
  forall fi s, Inv fa ptoks pkeys s ->
    match run_next_statement fi s with
    | (Ok _, s') => Inv fa ptoks pkeys s'
    | (Err e _, _) => benign e
    | _ => True
    end.
Proof. exact turn_sound. Qed.

(* non-vacuity: a program with a FOR loop, a subroutine and nested IFs is
   accepted, is clean, an interpreter into which its lines were typed holds it
   and satisfies the typing invariant — and RUN answers Ok *)
Definition C06_prog_lines : list String.string :=
  ["10 FOR I = 1 TO 3"; "20 GOSUB 100"; "30 NEXT I"; "40 IF I > 3 THEN IF I < 9 THEN PRINT ""done"""; "50 END";
   "100 IF I > 1 THEN PRINT I : GOTO 120"; "110 A$ = ""one"" : PRINT A$"; "120 RETURN"]%string.
Definition C06_prog_text : bytes := List.concat (map (fun l => bs l ++ [10%N]) C06_prog_lines).
Definition C06_prog_state : interp := run_state 100 init_interp (map (fun l => HLine (bs l)) C06_prog_lines).

(* non-vacuity of the ELSE theorem: the line of finding cf302e8 among nested IF / ELSE lines *)
Definition C06_else_lines : list String.string :=
  ["10 A = 0 : B = 0 : FOR I = 1 TO 2"; "20 IF A THEN IF B THEN PRINT 1 ELSE : ELSE PRINT 2";
   "30 IF I = 2 THEN GOSUB 100 ELSE IF B THEN 60 ELSE PRINT ""no"""; "40 NEXT I"; "50 END"; "60 PRINT ""never"" : END";
   "100 IF A THEN RETURN ELSE PRINT ""sub"" : RETURN"]%string.
Definition C06_else_text : bytes := List.concat (map (fun l => bs l ++ [10%N]) C06_else_lines).
Definition C06_else_state : interp := run_state 100 init_interp (map (fun l => HLine (bs l)) C06_else_lines).

Lemma clean2_program_check T : forallb (fun kv => clean2_line (snd kv)) T = true -> clean2_program T.
Proof.
  induction T as [|[k v] T IH]; intros H n ts E; cbn [toks_get] in E; [discriminate E|].
  cbn [forallb snd] in H. apply andb_prop in H as [H1 H2].
  destruct (k =? n)%N; [injection E as <-; exact H1 | exact (IH H2 n ts E)].
Qed.

Example C06_else_example :
  line_bound C06_else_text < 200
  /\ forallb (fun msg => negb (is_error_msg msg)) (an_messages (analyze 200 C06_else_text)) = true
  /\ clean2_program (st_toks (p_prog (pass1_of' C06_else_text)))
  /\ state C06_else_state = Idle
  /\ st_toks C06_else_state = st_toks (p_prog (pass1_of' C06_else_text))
  /\ st_keys C06_else_state = st_keys (p_prog (pass1_of' C06_else_text))
  /\ caps_inv C06_else_state
  /\ fst (start_evaluating 200 (bs "RUN") C06_else_state) = Ok tt.
Proof.
  split; [vm_compute; repeat constructor|]. split; [vm_compute; reflexivity|].
  split; [apply clean2_program_check; vm_compute; reflexivity|].
  split; [vm_compute; reflexivity|]. split; [vm_compute; reflexivity|]. split; [vm_compute; reflexivity|].
  split; [apply caps_reachable, caps_init | vm_compute; reflexivity].
Qed.

Lemma nodef_program_check T : forallb (fun kv => nodef_line (snd kv)) T = true -> nodef_program T.
Proof.
  induction T as [|[k v] T IH]; intros H n ts E; cbn [toks_get] in E; [discriminate E|].
  cbn [forallb snd] in H. apply andb_prop in H as [H1 H2].
  destruct (k =? n)%N; [injection E as <-; exact H1 | exact (IH H2 n ts E)].
Qed.

(* non-vacuity of the INPUT theorem: INPUT as the ELSE clause of an inner IF with the outer ELSE behind it;
   RUN stops awaiting input, the reply makes the interpreter runnable again and the next turn succeeds *)
Definition C06_input_lines : list String.string :=
  ["10 IF 1 THEN IF 0 THEN PRINT ""A"" ELSE INPUT X ELSE PRINT ""B""";
   "20 IF X THEN INPUT B$ ELSE INPUT C"; "30 PRINT X; B$"]%string.
Definition C06_input_text : bytes := List.concat (map (fun l => bs l ++ [10%N]) C06_input_lines).
Definition C06_input_state : interp := run_state 100 init_interp (map (fun l => HLine (bs l)) C06_input_lines).

Example C06_input_example :
  line_bound C06_input_text < 200
  /\ forallb (fun msg => negb (is_error_msg msg)) (an_messages (analyze 200 C06_input_text)) = true
  /\ nodef_program (st_toks (p_prog (pass1_of' C06_input_text)))
  /\ state C06_input_state = Idle
  /\ st_toks C06_input_state = st_toks (p_prog (pass1_of' C06_input_text))
  /\ st_keys C06_input_state = st_keys (p_prog (pass1_of' C06_input_text))
  /\ caps_inv C06_input_state
  /\ fst (start_evaluating 200 (bs "RUN") C06_input_state) = Ok tt
  /\ state (snd (start_evaluating 200 (bs "RUN") C06_input_state)) = AwaitingInput
  /\ exists s2, provide_input (bs "7") (snd (start_evaluating 200 (bs "RUN") C06_input_state)) = (Ok tt, s2)
       /\ ReachI 200 (snd (start_evaluating 200 (bs "RUN") C06_input_state)) s2
       /\ state s2 = Running /\ fst (continue_evaluating 200 s2) = Ok tt.
Proof.
  split; [vm_compute; repeat constructor|]. split; [vm_compute; reflexivity|].
  split; [apply nodef_program_check; vm_compute; reflexivity|].
  split; [vm_compute; reflexivity|]. split; [vm_compute; reflexivity|]. split; [vm_compute; reflexivity|].
  split; [apply caps_reachable, caps_init|]. split; [vm_compute; reflexivity|]. split; [vm_compute; reflexivity|].
  eexists. split; [vm_compute; reflexivity|].
  split; [eapply reachI_reply; [apply reachI_refl | vm_compute; reflexivity]|].
  split; vm_compute; reflexivity.
Qed.

(* THE KNOWN FINDING (open, known_findings.json class accepted-but-fails:late-def): the soundness clause is FALSE of the
   faithful model, and of the code, for a DEF that runs before its use but stands on a later line.  The checker reports
   nothing; the third turn after RUN fails with a syntax error at the call.  (The theorems above exclude DEF tokens.) *)
Definition C06_late_lines : list String.string :=
  ["10 GOTO 30"; "20 PRINT FNA(1) : END"; "30 DEF FNA(X,Y) = X + Y"; "40 GOTO 20"]%string.
Definition C06_late_text : bytes := List.concat (map (fun l => bs l ++ [10%N]) C06_late_lines).
Definition C06_late_state : interp :=
  run_state 100 init_interp (map (fun l => HLine (bs l)) C06_late_lines ++ [HLine (bs "RUN"); HCont; HCont]).

Example C06_late_def_refuted :
  forallb (fun msg => negb (is_error_msg msg)) (an_messages (analyze 200 C06_late_text)) = true
  /\ st_toks C06_late_state = st_toks (p_prog (pass1_of' C06_late_text))
  /\ state C06_late_state = Running
  /\ exists e l, fst (continue_evaluating 100 C06_late_state) = Err e l /\ ~ benign e.
Proof.
  split; [vm_compute; reflexivity|]. split; [vm_compute; reflexivity|]. split; [vm_compute; reflexivity|].
  eexists _, _. split; [vm_compute; reflexivity|]. cbn. exact (fun H => H).
Qed.

Lemma clean_program_check T : forallb (fun kv => clean_line (snd kv)) T = true -> clean_program T.
Proof.
  induction T as [|[k v] T IH]; intros H n ts E; cbn [toks_get] in E; [discriminate E|].
  cbn [forallb snd] in H. apply andb_prop in H as [H1 H2].
  destruct (k =? n)%N; [injection E as <-; exact H1 | exact (IH H2 n ts E)].
Qed.

Example C06_program_example :
  line_bound C06_prog_text < 200
  /\ forallb (fun msg => negb (is_error_msg msg)) (an_messages (analyze 200 C06_prog_text)) = true
  /\ clean_program (st_toks (p_prog (pass1_of' C06_prog_text)))
  /\ state C06_prog_state = Idle
  /\ st_toks C06_prog_state = st_toks (p_prog (pass1_of' C06_prog_text))
  /\ st_keys C06_prog_state = st_keys (p_prog (pass1_of' C06_prog_text))
  /\ caps_inv C06_prog_state
  /\ fst (start_evaluating 200 (bs "RUN") C06_prog_state) = Ok tt.
Proof.
  split; [vm_compute; repeat constructor|]. split; [vm_compute; reflexivity|].
  split; [apply clean_program_check; vm_compute; reflexivity|].
  split; [vm_compute; reflexivity|]. split; [vm_compute; reflexivity|]. split; [vm_compute; reflexivity|].
  split; [apply caps_reachable, caps_init | vm_compute; reflexivity].
Qed.

(* non-vacuity of the line theorems.  Line 10 A = 1 : PRINT A : B$ = "x" : straight, related states, the interpreter
   executes all three statements and the checker's walk answers "no error".  Line 10 A$ = 5 : PRINT 1 : the walk
   answers an Error message, and the interpreter's first statement indeed fails. *)
Definition C06_line_state (l : String.string) : interp :=
  set_loc (mkloc (Some 10%N) 0) (run_state 100 init_interp [HLine (bs l)]).
Definition C06_line_map (l : String.string) : source_map := an_map (analyze 200 (bs l ++ [10%N])).

Lemma C06_line_state_R l : functions (C06_line_state l) = [] -> R (C06_line_state l) (C06_line_state l).
Proof.
  intros Hf. split; [repeat split|]. split; [|split; exact Hf].
  apply (caps_inv_ext (run_state 100 init_interp [HLine (bs l)])); try reflexivity.
  apply caps_reachable, caps_init.
Qed.

Example C06_line_example_good :
  let st := C06_line_state "10 A = 1 : PRINT A : B$ = ""x""" in
  R st st /\ straight_line (cur_line st) = true
  /\ (exists s', LineRun 200 st s') /\ HostLine 200 st
  /\ fst (walk_line 200 10 (C06_line_map "10 A = 1 : PRINT A : B$ = ""x""") (st, [])) = Ok None.
Proof.
  cbn zeta. split; [apply C06_line_state_R; vm_compute; reflexivity|]. split; [vm_compute; reflexivity|].
  split; [|split; [apply (host_run_sound 200 10); vm_compute; reflexivity | vm_compute; reflexivity]].
  assert (E : exists s', line_run 10 200 (C06_line_state "10 A = 1 : PRINT A : B$ = ""x""") = Some s')
    by (eexists; vm_compute; reflexivity).
  destruct E as [s' E]. exists s'. exact (line_run_sound 200 10 _ s' E).
Qed.

Example C06_line_example_bad :
  let st := C06_line_state "10 A$ = 5 : PRINT 1" in
  R st st /\ straight_line (cur_line st) = true
  /\ (exists msg st', walk_line 200 10 (C06_line_map "10 A$ = 5 : PRINT 1") (st, []) = (Ok (Some msg), st'))
  /\ (exists s1 l s2, has_next_token st = (Ok true, s1) /\ evaluate_statement 200 0 s1 = (Err ETypeMismatch l, s2)).
Proof.
  cbn zeta. split; [apply C06_line_state_R; vm_compute; reflexivity|]. split; [vm_compute; reflexivity|].
  split; [eexists _, _; vm_compute; reflexivity|]. eexists _, _, _. split; [vm_compute; reflexivity|]. vm_compute; reflexivity.
Qed.

(* non-vacuity of the whole-text converse: the analysis of  10 A = 1 : PRINT A / 20 A$ = 5 : PRINT 1  reports one
   Error (TYPE MISMATCH on file line 1), the text has no DEF, the message is not a tokenization error of pass 1 -
   so by the theorem it comes from the walk on a stored line, here line 20, which is straight, and an interpreter that
   holds the program and stands at line 20 indeed fails there *)
Lemma caps_set_loc l s0 : caps_inv s0 -> caps_inv (set_loc l s0).
Proof. intros H. apply (caps_inv_ext s0); try reflexivity. exact H. Qed.

Definition C06_text_lines : list String.string := ["10 A = 1 : PRINT A"; "20 A$ = 5 : PRINT 1"]%string.
Definition C06_text : bytes := List.concat (map (fun l => bs l ++ [10%N]) C06_text_lines).
Definition C06_text_state : interp :=
  set_loc (mkloc (Some 20%N) 0) (run_state 100 init_interp (map (fun l => HLine (bs l)) C06_text_lines)).

Example C06_reported_error_example :
  let msg := MError 1 ETypeMismatch (Some (mkloc (Some 20%N) 2)) in
  line_bound C06_text < 200
  /\ nodef_program (st_toks (p_prog (pass1_of' C06_text)))
  /\ In msg (an_messages (analyze 200 C06_text)) /\ is_error_msg msg = true /\ ~ In msg (p_msgs (pass1_of' C06_text))
  /\ st_toks C06_text_state = st_toks (p_prog (pass1_of' C06_text))
  /\ st_keys C06_text_state = st_keys (p_prog (pass1_of' C06_text))
  /\ immediate C06_text_state = [] /\ loc C06_text_state = mkloc (Some 20%N) 0
  /\ caps_inv C06_text_state /\ functions C06_text_state = []
  /\ match toks_get 20%N (st_toks C06_text_state) with Some ts => straight_line ts | None => false end = true
  /\ match has_next_token C06_text_state with
     | (Ok true, s1) => match evaluate_statement 200 0 s1 with (Err ETypeMismatch _, _) => true | _ => false end
     | _ => false
     end = true.
Proof.
  cbn zeta.
  split; [vm_compute; repeat constructor|]. split; [apply nodef_program_check; vm_compute; reflexivity|].
  split; [vm_compute; left; reflexivity|]. split; [reflexivity|]. split; [vm_compute; exact (fun H => H)|].
  split; [vm_compute; reflexivity|]. split; [vm_compute; reflexivity|]. split; [vm_compute; reflexivity|].
  split; [vm_compute; reflexivity|].
  split; [unfold C06_text_state; apply caps_set_loc, caps_reachable, caps_init|].
  split; [vm_compute; reflexivity|]. split; vm_compute; reflexivity.
Qed.

(* non-vacuity of the completeness direction: the checker REJECTS  1 + "x"  on
   a fresh state (so by the theorem the interpreter cannot evaluate it) and the
   interpreter indeed answers TYPE MISMATCH *)
Example C06_agree_example :
  let toks := [TNumber (f64_of_Z 1); TPlus; TString (bs "x")] in
  let s := set_immediate toks init_interp in
  (exists l st, analyze_expression 40 0 (s, []) = (Err ETypeMismatch l, st)) /\
  (exists l st, evaluate_expression 40 0 s = (Err ETypeMismatch l, st)).
Proof. cbn zeta. split; eexists _, _; vm_compute; reflexivity. Qed.

(* non-vacuity: a fresh interpreter and a fresh analyzer state looking at the
   immediate line  (A + 1) * 2 < N(3) OR B$ = "x" : related, accepted as a number *)
Example C06_sound_example :
  let toks := [TLeftParen; TSymbol (bs "A"); TPlus; TNumber (f64_of_Z 1); TRightParen; TMultiply; TNumber (f64_of_Z 2);
               TLessThan; TSymbol (bs "N"); TLeftParen; TNumber (f64_of_Z 3); TRightParen; TOr;
               TSymbol (bs "B$"); TEquals; TString (bs "x")] in
  let s := set_immediate toks init_interp in
  R s s /\ exists sa' acc', analyze_expression 40 0 (s, []) = (Ok TyNumber, (sa', acc')).
Proof.
  cbn zeta. split.
  - split; [repeat split|]. split; [apply (caps_inv_ext init_interp); try reflexivity; apply caps_init|]. split; reflexivity.
  - eexists _, _. vm_compute. reflexivity.
Qed.

Print Assumptions C06_same_expression_grammar.
Print Assumptions C06_same_statement_keywords.
Print Assumptions C06_jump_targets.
Print Assumptions C06_analysis_keeps_store.
Print Assumptions C06_checker_assignment.
Print Assumptions C06_interpreter_assignment.
Print Assumptions C06_comparisons_are_numbers.
Print Assumptions C06_expression_check_sound.
Print Assumptions C06_assignment_check_sound.
Print Assumptions C06_print_check_sound.
Print Assumptions C06_straight_statement_sound.
Print Assumptions C06_dispatchers.
Print Assumptions C06_expression_check_agrees.
Print Assumptions C06_straight_statement_agrees.
Print Assumptions C06_evaluated_expression_is_not_rejected.
Print Assumptions C06_executed_statement_is_not_rejected.
Print Assumptions C06_program_sound.
Print Assumptions C06_turn_sound.
Print Assumptions C06_program_sound_else.
Print Assumptions C06_program_sound_input.
Print Assumptions C06_straight_line_complete.
Print Assumptions C06_straight_line_error_fails.
Print Assumptions C06_host_line_complete.
Print Assumptions C06_reported_error_means_failure.
Print Assumptions C06_statement_failure_is_turn_failure.
Print Assumptions C06_turn_success_is_statement_success.
Print Assumptions C06_expression_tokens.
