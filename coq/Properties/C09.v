(* C09 — One host call executes at most one statement and hands control back.
   Statements only; proofs are in Proofs/TurnProofs.v.

   What shows that a statement was executed are its output records: PRINT
   pushes exactly one Print record, INPUT at most one Reenter / ExtraIgnored
   record, STOP one Break record ([shows]); with tracing on, every entry of the
   statement evaluator pushes one Trace record naming the current line.
   Expressions — user-function bodies included — push nothing but warnings. *)
From Coq Require Import List NArith ZArith Bool.
From Abasic Require Import Model.Bytes Model.Num Model.Token Model.Data Model.Lexer Gen.Tables
     Model.State Model.Eval Model.Interp Proofs.Monad Proofs.Frames Proofs.StoreProofs Proofs.Safety
     Proofs.FlagsSim Proofs.TurnProofs Proofs.Termination Proofs.WorkBound.
Import ListNotations.
Local Open Scope nat_scope.

(* The call that continues a running program, from ANY well-formed state
   (every reachable state is well-formed: C01_inv): at most one record that
   shows an executed statement — an IF together with the single statement it
   selects counts as one — and every Trace record names the one line the cursor
   was on when the call began. *)
Theorem C09_continue : forall fuel s,
  wf s -> state s = Running ->
  exists new, outputs (snd (continue_evaluating fuel s)) = outputs s ++ new
              /\ length (filter shows new) <= 1
              /\ Forall (trace_ok (loc_line (loc s))) new.
Proof. exact continue_one_statement. Qed.

(* The calls that START evaluation — an immediate statement line, RUN, CONT
   (LIST and the other commands execute no statement). *)
Theorem C09_start : forall fuel line s,
  wf s -> starts_statement line ->
  exists new, outputs (snd (start_evaluating fuel line s)) = outputs s ++ new
              /\ length (filter shows new) <= 1.
Proof. exact start_one_statement. Qed.

(* the common core of both *)
Theorem C09_turn : forall fuel s,
  wf s ->
  exists new, outputs (snd (run_next_statement fuel s)) = outputs s ++ new
              /\ length (filter shows new) <= 1
              /\ Forall (trace_ok (loc_line (loc s))) new.
Proof. exact one_statement_per_turn. Qed.

(* Expression evaluation — every user-function body is an expression — appends
   only Warning records, for every outcome. *)
Theorem C09_expressions_silent : forall fuel n s,
  exists new, outputs (snd (evaluate_expression fuel n s)) = outputs s ++ new /\ Forall is_warning new.
Proof. intros fuel n s. exact (rq_evaluate_expression fuel n s). Qed.

(* "Always hands control back".  The interpreter's loops (operator tiers,
   subscript lists, PRINT items, READ targets, the IF scan, DEF parameters and
   body) and its recursion (parentheses, user-function bodies, nested IFs) are
   modelled with fuel; that a host call returns is, in the model, that the fuel
   suffices.  From EVERY well-formed state (every reachable state is: C01_inv),
   with fuel above a bound that depends only on the longest token list the
   cursor can be on (stored lines, immediate line, the submitted line) and the
   nesting cap, the call never answers OutOfFuel (Proofs/Termination.v: an
   evaluator never moves the cursor backwards and returns to its line after a
   user-function call; a successful expression consumes a token; every
   continuing loop iteration consumes a token; recursion costs one unit of
   fuel per level of the shared nesting counter).  provide_input and
   break_at_current_location contain no loop at all. *)
Theorem C09_continue_returns : forall fuel s,
  wf s -> call_bound s < fuel -> fst (continue_evaluating fuel s) <> OutOfFuel.
Proof. exact continue_returns. Qed.

Theorem C09_start_returns : forall fuel line s,
  wf s -> start_bound s line < fuel -> fst (start_evaluating fuel line s) <> OutOfFuel.
Proof. exact start_returns. Qed.

(* "For programs that call no user-defined function, the work done in one call
   is bounded by the length of the line being executed" (Proofs/WorkBound.v).
   Work = token-cursor reads, the hook counter [reads] (the model's counter
   EQUALS the implementation's on every call of every correspondence case).
   [room s] = tokens left on the line the cursor is on, [loc_idx (loc s)] =
   tokens before it.  With an empty function table, from EVERY well-formed
   state, one turn costs at most 12 reads per token left, plus one read per
   token before the cursor (INPUT rewinding over its own statement), plus 4.
   A potential argument over every evaluator: a read that consumes a token is
   paid by that token; the reads that consume nothing are counted along every
   path and covered by the tokens the path did consume, up to the constant. *)
Theorem C09_work_bound_turn : forall fuel s, wf s -> functions s = [] ->
  reads (snd (run_next_statement fuel s)) <= reads s + 12 * room s + loc_idx (loc s) + 4.
Proof. exact work_bound_turn. Qed.

Theorem C09_work_bound_continue : forall fuel s, wf s -> functions s = [] -> state s = Running ->
  reads (snd (continue_evaluating fuel s)) <= reads s + 12 * room s + loc_idx (loc s) + 4.
Proof. exact work_bound_continue. Qed.

(* the calls that start evaluation: a typed line of statements (the line
   executed is the typed one), RUN (which empties the function table itself;
   [lim]: the longest token list in the interpreter), CONT (the line the
   breakpoint is on) *)
Theorem C09_work_bound_immediate : forall fuel line ts s, wf s -> functions s = [] -> state s = Idle ->
  command_of line = None -> parse_line_number line = None -> tokenize line 0 = TokOk ts ->
  reads (snd (start_evaluating fuel line s)) <= reads s + 12 * length ts + 4.
Proof. exact work_bound_immediate. Qed.

Theorem C09_work_bound_run : forall fuel line s, wf s -> state s = Idle -> command_of line = Some CRun ->
  reads (snd (start_evaluating fuel line s)) <= reads s + 12 * lim s + 4.
Proof. exact work_bound_run. Qed.

Theorem C09_work_bound_cont : forall fuel line s n i ts, wf s -> functions s = [] -> state s = Idle ->
  command_of line = Some CCont -> breakpoint s = Some (n, i) -> toks_get n (st_toks s) = Some ts ->
  reads (snd (start_evaluating fuel line s)) <= reads s + 12 * (length ts - i) + i + 4.
Proof. exact work_bound_cont. Qed.

(* expressions alone: 11 reads per token consumed, 3 more when they fail *)
Theorem C09_expression_cost : forall fuel n, Jc (evaluate_expression fuel n) (ob (-1) EF).
Proof. exact Jc_evaluate_expression. Qed.

(* non-vacuity: a 27-token line; its first statement (22 tokens of nested
   parentheses and operators) costs 96 reads from a fresh interpreter, under
   the bound 12 * 27 + 4 *)
Example C09_work_example :
  let line := bs "PRINT ((1+2)*(3-4))/((5)) ; A$ ; : X = 1" in
  exists ts, tokenize line 0 = TokOk ts /\ length ts = 27 /\
    reads (snd (start_evaluating 100 line init_interp)) = 96.
Proof. eexists. split; [vm_compute; reflexivity|]. split; vm_compute; reflexivity. Qed.

(* non-vacuity: `10 PRINT "A":PRINT "B"` under TRACE — three calls, one trace
   record each (the colon is its own turn), Print records 1, 0, 1; a never-ending
   program is a host loop; an IF with its selected statement is one turn. *)
Example C09_example :
  let ops := [HFlags false true; HLine (bs "10 PRINT ""A"":PRINT ""B"""); HLine (bs "20 IF 1 THEN PRINT ""C"" ELSE PRINT ""D""");
              HLine (bs "30 GOTO 10"); HLine (bs "RUN"); HCont; HCont; HCont; HCont; HCont] in
  map (fun o => option_map r_outputs o) (run_ops 100 init_interp ops)
  = [None; Some []; Some []; Some [];
     Some (outputs_text [OTrace 10; OPrint (bs "A" ++ [10%N])]);
     Some (outputs_text [OTrace 10]);
     Some (outputs_text [OTrace 10; OPrint (bs "B" ++ [10%N])]);
     Some (outputs_text [OTrace 20; OTrace 20; OPrint (bs "C" ++ [10%N])]);
     Some (outputs_text [OTrace 30]);
     Some (outputs_text [OTrace 10; OPrint (bs "A" ++ [10%N])])].
Proof. vm_compute. reflexivity. Qed.

Print Assumptions C09_continue.
Print Assumptions C09_start.
Print Assumptions C09_turn.
Print Assumptions C09_expressions_silent.
Print Assumptions C09_continue_returns.
Print Assumptions C09_start_returns.
Print Assumptions C09_work_bound_turn.
Print Assumptions C09_work_bound_continue.
Print Assumptions C09_work_bound_immediate.
Print Assumptions C09_work_bound_run.
Print Assumptions C09_work_bound_cont.
Print Assumptions C09_expression_cost.
