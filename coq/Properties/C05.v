(* C05 — Static analysis terminates on every file; diagnostics are well-formed.
   Statements only; proofs are in Proofs/AnalyzerProofs.v (on top of the
   tokenizer range theorems of C13).

   [analyze fuel text] is the model of SourceFileAnalyzer::analyze: pass 1
   (per file line: tokenize, store, record token classes, source ranges and the
   BASIC-line -> file-line map), the walk over the stored lines with the
   analyzer fork of the evaluators, the symbol warnings.  A file's lines are
   its LF-separated pieces; each is valid UTF-8 (pieces of a Rust &str).
   [range_ok line (a, b)]: a <= b <= |line|, both on character boundaries. *)
From Coq Require Import List NArith ZArith Bool.
From Abasic Require Import Model.Bytes Model.Num Model.Token Model.Data Model.Lexer Gen.Tables
     Model.State Model.Eval Model.Interp Model.Analyzer Proofs.LexerRanges Proofs.AnalyzerProofs
     Proofs.AnalyzerSafety Proofs.AnalyzerTermination.
Import ListNotations.
Local Open Scope nat_scope.

(* one token list and one range record per file line, for every text *)
Theorem C05_shape : forall fuel text,
  Forall (fun l => valid_utf8 l = true) (split_lines text) ->
  length (an_tokens (analyze fuel text)) = length (split_lines text)
  /\ an_nlines (analyze fuel text) = length (split_lines text)
  /\ length (sm_ranges (an_map (analyze fuel text))) = length (split_lines text).
Proof. exact analysis_shape. Qed.

(* token classes per line: ordered, non-overlapping ranges *)
Theorem C05_tokens : forall fuel text,
  Forall (fun l => valid_utf8 l = true) (split_lines text) ->
  Forall (fun lt => ordered 0 lt) (an_tokens (analyze fuel text)).
Proof. exact analysis_tokens_ordered. Qed.

(* every BASIC-line binding of the source map names an existing file line *)
Theorem C05_bindings : forall fuel text,
  Forall (fun l => valid_utf8 l = true) (split_lines text) ->
  Forall (fun kv => snd kv < length (split_lines text)) (sm_lines (an_map (analyze fuel text))).
Proof. exact bindings_in_file. Qed.

(* Every diagnostic that maps to a source position maps INTO its line:
   an existing file line, a byte range inside it, on character boundaries —
   for warnings and errors of every kind, located by token (map_location_to_
   source), by line number, or by the tokenizer's error range (an illegal
   multi-byte character is covered whole).  [msg_ok] is a side condition on
   tokenizer-error messages only: the named file line recorded an error range. *)
Theorem C05_diag : forall fuel text msg fl r,
  Forall (fun l => valid_utf8 l = true) (split_lines text) ->
  let a := analyze fuel text in
  msg_ok (sm_ranges (an_map a)) msg ->
  map_to_source (an_map a) msg = Some (fl, r) ->
  exists line, nth_error (split_lines text) fl = Some line /\ range_ok line r.
Proof. exact mapped_in_bounds. Qed.

(* ... which all messages of pass 1 satisfy (tokenizer errors come from pass 1) *)
Theorem C05_pass1_messages : forall fuel text,
  Forall (fun l => valid_utf8 l = true) (split_lines text) ->
  exists more, an_messages (analyze fuel text) = p_msgs (pass1_of text) ++ more
               /\ Forall (msg_ok (sm_ranges (an_map (analyze fuel text)))) (p_msgs (pass1_of text)).
Proof. exact pass1_messages_ok. Qed.

(* the end of a tokenizer error range never exceeds the line (used above; new
   with this property) *)
Theorem C05_error_range_end : forall line skip ts e,
  skip <= length line -> tokenize line skip = TokErr ts e ->
  snd (error_range e (length line)) <= length line.
Proof. exact tokenize_err_end. Qed.

(* The analysis never panics — for EVERY text (no validity hypothesis): the
   result is never Panic, where the model keeps all four panic sites of the
   Rust (tokens_for_line(..).unwrap() under every cursor operation,
   err.location.unwrap(), the explicit panic! when a diagnostic's location
   does not map to the source, the unwrap() on the symbol warnings' locations).
   Invariant (Proofs/AnalyzerSafety.v): the cursor is on a stored line at most
   one past its last token; every located error and every logged symbol access
   is at such a location; an unlocated error is never DATA TYPE MISMATCH; pass 1
   maps every such location to a range. *)
Theorem C05_never_panics : forall fuel text p, an_result (analyze fuel text) <> Panic p.
Proof. exact analysis_never_panics. Qed.

(* EVERY diagnostic the analysis reports — pass-1 warnings and tokenizer errors,
   the errors of the walk, the symbol warnings — maps to a source position, and
   that position is on an existing file line, inside it, on character
   boundaries: the full second sentence of the property, for every text whose
   lines are valid UTF-8 (pieces of a Rust &str). *)
Theorem C05_every_diagnostic_maps : forall fuel text,
  Forall (fun msg => map_to_source (an_map (analyze fuel text)) msg <> None) (an_messages (analyze fuel text)).
Proof. exact analysis_messages_map. Qed.

Theorem C05_diagnostics_well_formed : forall fuel text,
  Forall (fun l => valid_utf8 l = true) (split_lines text) ->
  Forall (fun msg => exists fl r line,
            map_to_source (an_map (analyze fuel text)) msg = Some (fl, r)
            /\ nth_error (split_lines text) fl = Some line /\ range_ok line r)
         (an_messages (analyze fuel text)).
Proof. exact diagnostics_well_formed. Qed.

(* The analysis TERMINATES, for every text.  The Rust analyzer's loops and its
   recursion are modelled with fuel; that the fuel suffices is what their
   termination is in the model: with fuel above a bound that depends only on
   the longest stored line and the nesting cap ([line_bound text] = longest
   token list + max_nesting) the result is never OutOfFuel
   (Proofs/AnalyzerTermination.v: the cursor never moves backwards; an
   expression that succeeds consumes a token; every loop iteration that
   continues consumes a token; recursion consumes one unit of fuel per nesting
   level).  Together with C05_never_panics: for enough fuel the analysis returns
   a result, for every text. *)
Theorem C05_terminates : forall fuel text,
  line_bound text < fuel -> an_result (analyze fuel text) <> OutOfFuel.
Proof. exact analysis_terminates. Qed.

Theorem C05_total : forall fuel text, line_bound text < fuel -> an_result (analyze fuel text) = Ok tt.
Proof. exact analysis_total. Qed.

(* non-vacuity: a file with a duplicate number, a blank line, an unnumbered
   line, an untokenizable line with a multi-byte illegal character *)
Example C05_example :
  let text := bs "10 X = 1" ++ [10%N] ++ bs "10" ++ [10%N] ++ [10%N] ++ bs "PRINT 1" ++ [10%N]
              ++ bs "20 PRINT " ++ [195; 169]%N ++ [10%N] ++ bs "30 PRINT Y" in
  let a := analyze 200 text in
  an_result a = Ok tt /\ an_nlines a = 6 /\ length (an_tokens a) = 6
  /\ forallb (fun l => valid_utf8 l) (split_lines text) = true
  /\ map (map_to_source (an_map a)) (an_messages a)
     = [Some (1, (0, 2)); Some (1, (0, 2)); Some (3, (0, 0)); Some (4, (9, 11)); Some (0, (3, 4)); Some (5, (9, 10))].
Proof. vm_compute. repeat split. Qed.

Print Assumptions C05_shape.
Print Assumptions C05_tokens.
Print Assumptions C05_bindings.
Print Assumptions C05_diag.
Print Assumptions C05_pass1_messages.
Print Assumptions C05_error_range_end.
Print Assumptions C05_never_panics.
Print Assumptions C05_every_diagnostic_maps.
Print Assumptions C05_diagnostics_well_formed.
Print Assumptions C05_terminates.
Print Assumptions C05_total.
