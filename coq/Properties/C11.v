(* C11 — Editing the program invalidates every runtime reference into it.
   Statements only; proofs are in Proofs/ResetProofs.v. *)
From Coq Require Import List NArith ZArith Bool.
From Abasic Require Import Model.Bytes Model.Num Model.Token Model.Data Model.Lexer Gen.Tables
     Model.State Model.Eval Model.Interp Proofs.Monad Proofs.Frames Proofs.StoreProofs Proofs.ResetProofs Proofs.EditProbes.
Import ListNotations.

(* Any idle state whatsoever (at a breakpoint, inside loops and subroutines,
   with a half-read DATA list ...), any line that is a numbered edit: *)
Theorem C11_edit : forall fuel line s n v,
  state s = Idle -> edit_of line = Some (n, v) ->
  let '(r, s') := start_evaluating fuel line s in
  r = Ok tt
  /\ breakpoint s' = None /\ stack s' = [] /\ loops s' = [] /\ functions s' = [] /\ data_it s' = None
  /\ loc s' = imm0 /\ immediate s' = [] /\ state s' = Idle
  /\ variables s' = variables s /\ arrays s' = arrays s /\ rng s' = rng s /\ input s' = input s
  /\ outputs s' = outputs s
  /\ st_toks s' = st_toks (store_set n v s) /\ st_keys s' = st_keys (store_set n v s).
Proof. exact edit_invalidates. Qed.

(* probe: CONT can resume nothing *)
Theorem C11_cont : forall fuel fuel' line s n v,
  state s = Idle -> edit_of line = Some (n, v) ->
  fst (start_evaluating fuel' (bs "CONT") (snd (start_evaluating fuel line s)))
  = Err ECannotContinue (Some imm0).
Proof. exact cont_after_edit. Qed.

(* A rejected edit (tokenization error) is reported as such, leaves program,
   breakpoint, loops, functions, data cursor, variables, arrays, generator
   and pending reply untouched (and the GOSUB stack too whenever something
   could still be resumed), and no later line entry can tell it happened. *)
Theorem C11_rejected : forall fuel line s,
  state s = Idle -> rejected line ->
  let s' := snd (start_evaluating fuel line s) in
  state s' = Idle
  /\ (forall fuel' line', start_evaluating fuel' line' s' = start_evaluating fuel' line' s)
  /\ st_toks s' = st_toks s /\ st_keys s' = st_keys s /\ breakpoint s' = breakpoint s
  /\ loops s' = loops s /\ functions s' = functions s /\ data_it s' = data_it s
  /\ variables s' = variables s /\ arrays s' = arrays s /\ rng s' = rng s /\ input s' = input s
  /\ (breakpoint s <> None -> stack s' = stack s).
Proof. exact rejected_edit_invisible. Qed.

Theorem C11_rejected_error : forall fuel line s,
  state s = Idle -> rejected line ->
  exists e, start_evaluating fuel line s = (Err (ESyntaxTok e) (Some imm0), imm_reset [] s).
Proof. exact rejected_edit_state. Qed.

(* The other probes, after any successful edit from any idle state
   (Proofs/EditProbes.v).  An immediate line is any text that is no command,
   has no line number and tokenizes ([imm_line]):
   - any immediate line starting with RETURN fails with RETURN WITHOUT GOSUB;
   - any immediate line starting with NEXT w, w holding a number (NEXT A$ is a
     TYPE MISMATCH whether or not a loop is open), fails with NEXT WITHOUT FOR
     and leaves the variables alone;
   - no name is a user-defined function any more (FNA(1) is an array cell again);
   - the next READ yields what it yields in ANY state holding the same program
     with no data cursor - a freshly started one included: it starts from the
     first DATA item of the program as edited. *)
Theorem C11_probes : forall fuel line s n v,
  state s = Idle -> edit_of line = Some (n, v) ->
  let s' := snd (start_evaluating fuel line s) in
  (forall f l tl, imm_line l (TReturn :: tl) ->
     exists lc s2, start_evaluating (S f) l s' = (Err EReturnWithoutGosub (Some lc), s2) /\ loc_line lc = None /\ state s2 = Idle)
  /\ (forall f l w x tl, var_read w s = VNum x -> imm_line l (TNext :: TSymbol w :: tl) ->
     exists lc s2, start_evaluating (S f) l s' = (Err ENextWithoutFor (Some lc), s2) /\ loc_line lc = None /\ state s2 = Idle
                   /\ variables s2 = variables s)
  /\ (forall (rec : M value) name, user_function_call rec name s' = (Ok None, s'))
  /\ (forall s2, data_it s2 = None -> st_keys s2 = st_keys s' -> st_toks s2 = st_toks s' ->
        fst (next_data_element s') = fst (next_data_element s2)).
Proof. exact probes_after_edit. Qed.

(* non-vacuity: the probe lines are immediate lines *)
Example C11_probe_lines :
  imm_line (bs "RETURN") [TReturn] /\ imm_line (bs "next i") [TNext; TSymbol (bs "I")]
  /\ imm_line (bs "RETURN : PRINT 1") (TReturn :: [TColon; TPrint; TNumber (f64_of_Z 1)]).
Proof. repeat split; try (vm_compute; reflexivity); eexists; (split; [vm_compute; reflexivity | reflexivity]). Qed.

(* non-vacuity: an edit at a breakpoint inside FOR + GOSUB with DATA half read *)
Example C11_example :
  let ops := map (fun t => HLine (bs t))
               ["10 DATA 1,2"; "20 FOR I=1 TO 3"; "30 GOSUB 50"; "40 NEXT I"; "50 READ A : STOP"; "RUN"]%string
             ++ [HCont; HCont; HCont; HCont; HCont] in
  let s := run_state 100 init_interp ops in
  state s = Idle /\ breakpoint s <> None /\ stack s <> [] /\ loops s <> [] /\ data_it s <> None
  /\ edit_of (bs "15 REM x") = Some (15%N, [TRemark (bs " x")]).
Proof. vm_compute. repeat split; congruence. Qed.

Print Assumptions C11_edit.
Print Assumptions C11_cont.
Print Assumptions C11_rejected.
Print Assumptions C11_rejected_error.
Print Assumptions C11_probes.
