(* C11 — Editing the program invalidates every runtime reference into it.
   Statements only; proofs are in Proofs/ResetProofs.v. *)
From Coq Require Import List NArith ZArith Bool.
From Abasic Require Import Model.Bytes Model.Num Model.Token Model.Data Model.Lexer Gen.Tables
     Model.State Model.Eval Model.Interp Proofs.Monad Proofs.Frames Proofs.StoreProofs Proofs.ResetProofs.
Import ListNotations.

(* Any idle state whatsoever (at a breakpoint, inside loops and subroutines,
   with a half-read DATA list ...), any line that is a numbered edit: *)
Theorem C11_edit : forall fuel line s n v,
  state s = Idle -> edit_of line = Some (n, v) ->
  let '(r, s') := start_evaluating fuel line s in
  r = Ok tt
  /\ breakpoint s' = None /\ stack s' = [] /\ loops s' = [] /\ functions s' = [] /\ data_it s' = None
  /\ loc s' = imm0 /\ immediate s' = [] /\ state s' = Idle
  /\ variables s' = variables s /\ arrays s' = arrays s /\ rng s' = rng s /\ input s' = input s
  /\ outputs s' = outputs s
  /\ st_toks s' = st_toks (store_set n v s) /\ st_keys s' = st_keys (store_set n v s).
Proof. exact edit_invalidates. Qed.

(* probe: CONT can resume nothing *)
Theorem C11_cont : forall fuel fuel' line s n v,
  state s = Idle -> edit_of line = Some (n, v) ->
  fst (start_evaluating fuel' (bs "CONT") (snd (start_evaluating fuel line s)))
  = Err ECannotContinue (Some imm0).
Proof. exact cont_after_edit. Qed.

(* A rejected edit (tokenization error) is reported as such, leaves program,
   breakpoint, loops, functions, data cursor, variables, arrays, generator
   and pending reply untouched (and the GOSUB stack too whenever something
   could still be resumed), and no later line entry can tell it happened. *)
Theorem C11_rejected : forall fuel line s,
  state s = Idle -> rejected line ->
  let s' := snd (start_evaluating fuel line s) in
  state s' = Idle
  /\ (forall fuel' line', start_evaluating fuel' line' s' = start_evaluating fuel' line' s)
  /\ st_toks s' = st_toks s /\ st_keys s' = st_keys s /\ breakpoint s' = breakpoint s
  /\ loops s' = loops s /\ functions s' = functions s /\ data_it s' = data_it s
  /\ variables s' = variables s /\ arrays s' = arrays s /\ rng s' = rng s /\ input s' = input s
  /\ (breakpoint s <> None -> stack s' = stack s).
Proof. exact rejected_edit_invisible. Qed.

Theorem C11_rejected_error : forall fuel line s,
  state s = Idle -> rejected line ->
  exists e, start_evaluating fuel line s = (Err (ESyntaxTok e) (Some imm0), imm_reset [] s).
Proof. exact rejected_edit_state. Qed.

(* RETURN / NEXT / FN-call / READ probes after an edit follow from the empty
   stack / loop stack / function table / data cursor by the definitions of
   return_to_last_gosub, end_loop, user_function_call and next_data_element;
   they are exercised by the C11 oracle on the implementation. *)

(* non-vacuity: an edit at a breakpoint inside FOR + GOSUB with DATA half read *)
Example C11_example :
  let ops := map (fun t => HLine (bs t))
               ["10 DATA 1,2"; "20 FOR I=1 TO 3"; "30 GOSUB 50"; "40 NEXT I"; "50 READ A : STOP"; "RUN"]%string
             ++ [HCont; HCont; HCont; HCont; HCont] in
  let s := run_state 100 init_interp ops in
  state s = Idle /\ breakpoint s <> None /\ stack s <> [] /\ loops s <> [] /\ data_it s <> None
  /\ edit_of (bs "15 REM x") = Some (15%N, [TRemark (bs " x")]).
Proof. vm_compute. repeat split; congruence. Qed.

Print Assumptions C11_edit.
Print Assumptions C11_cont.
Print Assumptions C11_rejected.
Print Assumptions C11_rejected_error.
