(* C07 — Break and CONT are transparent to the interrupted program.
   Statements only; proofs are in Proofs/BreakCont.v (and Proofs/RunInv.v,
   Proofs/InputProofs.v).

   [step fuel s op] is one host call on the model ([HBreak] =
   break_at_current_location, [HLine CONT] = typing CONT, [HCont] =
   continue_evaluating, [HReply t] = provide_input); [call_obs] is the same
   call as (outcome, output records, state after).  [J s] is the invariant of a
   program started by RUN (no breakpoint pending, empty immediate line, cursor
   / return addresses / loop starts on numbered lines); [Inv s] says the
   output was taken and J holds while the program is going. *)
From Coq Require Import List NArith ZArith Bool.
From Abasic Require Import Model.Bytes Model.Num Model.Token Model.Data Model.Lexer Gen.Tables
     Model.State Model.Eval Model.Interp Proofs.Monad Proofs.Frames Proofs.StoreProofs
     Proofs.ResetProofs Proofs.Safety Proofs.FlagsSim Proofs.InputProofs Proofs.RunInv Proofs.BreakCont
     Proofs.EditProbes Proofs.Inspect.
Import ListNotations.
Local Open Scope nat_scope.

(* A break while Running, then CONT: the complete state and the complete row
   (outcome, state, outputs, caret, message, hook counter, snapshot) are those
   of the plain continue call; the break call itself shows only the BREAK
   notice and an idle interpreter.  GOSUB / function stack, FOR stack, DATA
   cursor, variables ... all survive: the states are EQUAL. *)
Theorem C07_break_cont_running : forall fuel s n,
  state s = Running -> loc_line (loc s) = Some n ->
  breakpoint s = None -> immediate s = [] -> outputs s = [] ->
  let '(rb, s1) := step fuel s HBreak in
  let '(rc, s2) := step fuel s1 (HLine CONT) in
  let '(r, s') := step fuel s HCont in
  s2 = s' /\ rc = r
  /\ exists row, rb = Some row
       /\ r_outputs row = outputs_text [OBreak (Some n)]
       /\ r_state row = show_state Idle
       /\ r_outcome row = bs "ok".
Proof. exact break_cont_running. Qed.

(* A break while awaiting input, then CONT: the same request again — the
   state is the interrupted state (but for the hook counter), the call shows
   nothing but the trace record of the re-executed INPUT. *)
Theorem C07_break_cont_awaiting : forall fuel s n,
  awaiting_ok s -> loc_line (loc s) = Some n ->
  breakpoint s = None -> immediate s = [] -> outputs s = [] -> 1 <= fuel ->
  call_obs fuel s HBreak = Some (Ok tt, [OBreak (Some n)], broken n (loc_idx (loc s)) s)
  /\ call_obs fuel (broken n (loc_idx (loc s)) s) (HLine CONT) = Some (Ok tt, trace_of s, set_reads 4 s).
Proof.
  intros fuel s n Haw Hl Hbp Himm Hout Hf. split.
  - rewrite (call_obs_break fuel s n (or_intror (proj1 Haw)) Hl), Hout. reflexivity.
  - apply break_cont_awaiting; assumption.
Qed.

(* RUN establishes the invariant; every driving call keeps it. *)
Theorem C07_run_establishes : forall fuel s,
  state s = Idle ->
  match call_obs fuel s (HLine (bs "RUN")) with
  | Some (Ok _, _, s') => Inv s'
  | _ => True
  end.
Proof. exact Inv_after_run. Qed.

Theorem C07_invariant_kept : forall fuel s op,
  Inv s -> drive op ->
  match call_obs fuel s op with Some (x, _, _) => is_val x | None => True end ->
  Inv (snd (step fuel s op)).
Proof. exact Inv_step. Qed.

(* EVERY schedule: any choice of turn boundaries (while Running: the break +
   CONT pair replaces the continue call; while awaiting input: the pair is
   inserted) — what the program shows (all output records but BREAK notices and
   trace records, and its errors) and the final state are those of the
   uninterrupted run.  [values]: the calls of the plain run return values or
   errors (no Panic: C01; no model-side OutOfFuel / OracleMiss). *)
Theorem C07_schedule : forall fuel s ops ops',
  sched fuel s ops ops' -> 1 <= fuel ->
  forall t, eqr t s -> Inv s -> values fuel s ops ->
  transcript fuel t ops' = transcript fuel s ops
  /\ eqr (run_state fuel t ops') (run_state fuel s ops).
Proof. exact break_schedule. Qed.

(* Inspection: CONT — and the whole continuation — reads the breakpoint and the
   runtime part of the state only, not the immediate line, the cursor or the
   hook counter.  An inspection line, succeeding or failing, changes the
   continuation only if it changes the runtime part. *)
Theorem C07_inspect : forall fuel s1 s2 ops,
  state s1 = Idle -> breakpoint s1 <> None -> norm s1 = norm s2 ->
  transcript fuel s1 (HLine CONT :: ops) = transcript fuel s2 (HLine CONT :: ops)
  /\ run_state fuel s1 (HLine CONT :: ops) = run_state fuel s2 (HLine CONT :: ops).
Proof. exact continuation_reads_runtime_only. Qed.

(* ... and an inspection line DOES leave the runtime part alone
   (Proofs/Inspect.v).  [imm_line text ts]: the text is no command, has no line
   number and tokenizes to ts.  [insp_line ts]: PRINT / ? statements separated
   by ":" over ANY item lists and expressions in which no name is followed by
   "(" except ABS and INT (no array reference — it may dimension the array —,
   no RND — it advances the generator —, no user-function call).  Typed at a
   breakpoint and driven by any number of continue calls, succeeding or
   failing ([values]: each call answers a value or an error): the runtime part
   ([core]: everything but cursor, immediate line, output queue, state flag and
   hook counter) never changes, and once the interpreter is idle again its
   [norm] is the one at the breakpoint ... *)
Theorem C07_inspection_keeps_runtime : forall fuel text ts s0,
  state s0 = Idle -> breakpoint s0 <> None -> outputs s0 = [] ->
  imm_line text ts -> insp_line ts = true ->
  forall k, values fuel s0 (HLine text :: conts k) ->
  let s := run_state fuel s0 (HLine text :: conts k) in
  Mid ts s0 s /\ (state s = Idle -> norm s = norm s0).
Proof. exact inspection_keeps_runtime. Qed.

(* ... so CONT after it, and the whole continuation, is CONT without it *)
Theorem C07_inspection_transparent : forall fuel text ts s0 k ops,
  state s0 = Idle -> breakpoint s0 <> None -> outputs s0 = [] ->
  imm_line text ts -> insp_line ts = true -> values fuel s0 (HLine text :: conts k) ->
  state (run_state fuel s0 (HLine text :: conts k)) = Idle ->
  transcript fuel (run_state fuel s0 (HLine text :: conts k)) (HLine CONT :: ops) = transcript fuel s0 (HLine CONT :: ops)
  /\ run_state fuel (run_state fuel s0 (HLine text :: conts k)) (HLine CONT :: ops) = run_state fuel s0 (HLine CONT :: ops).
Proof. exact inspection_transparent. Qed.

(* No evaluator ever returns a tokenizer error, so the row of "CONT" (which has
   a source text) and the row of a plain continue (which has none) render the
   same caret. *)
Theorem C07_no_tokenizer_error_at_run_time : forall fuel, nosyn (run_next_statement fuel).
Proof. exact nosyn_run_next_statement. Qed.

(* Non-vacuity: a program stopped by the host inside a GOSUB inside a FOR with
   DATA half read and an INPUT pending.  The state after RUN satisfies Inv, the
   awaiting state satisfies awaiting_ok, a failing inspection line (PRINT 1/0)
   leaves the runtime part alone, and a broken run shows what the plain run
   shows. *)
Definition C07_prog : list hostop :=
  map (fun t => HLine (bs t))
      ["10 DATA 5,6"; "20 FOR I = 1 TO 2"; "30 GOSUB 60"; "40 NEXT I"; "50 END";
       "60 READ A : INPUT X : PRINT A+X+I"; "70 RETURN"]%string.

Definition C07_s0 : interp := run_state 300 init_interp (C07_prog ++ [HLine (bs "RUN")]).
Definition C07_plain : list hostop :=
  [HCont; HCont; HCont; HCont; HCont; HReply (bs "1"); HCont; HCont; HCont; HCont; HCont; HCont; HCont; HCont; HCont;
   HReply (bs "2"); HCont; HCont; HCont; HCont; HCont; HCont].
Definition C07_broken : list hostop :=
  [HCont; HBreak; HLine CONT; HCont; HCont; HCont; HBreak; HLine (bs "PRINT 1/0"); HLine CONT; HReply (bs "1");
   HBreak; HLine CONT; HCont; HCont; HBreak; HLine CONT; HCont; HCont; HCont; HCont; HCont;
   HReply (bs "2"); HCont; HCont; HCont; HCont; HCont; HCont].

Example C07_example :
  Inv C07_s0 /\ state C07_s0 = Running
  /\ awaiting_ok (run_state 300 C07_s0 [HCont; HCont; HCont; HCont; HCont])
  /\ transcript 300 C07_s0 C07_plain
     = ([OPrint (bs "7" ++ [10%N]); OPrint (bs "10" ++ [10%N])], [])
  /\ fst (transcript 300 C07_s0 C07_broken) = fst (transcript 300 C07_s0 C07_plain)
  /\ snd (transcript 300 C07_s0 C07_broken) = [(EDivisionByZero, Some (mkloc None 3))]   (* the inspection line's own error *)
  /\ state (run_state 300 C07_s0 C07_plain) = Idle
  /\ eqr (run_state 300 C07_s0 C07_broken) (run_state 300 C07_s0 C07_plain).
Proof.
  split.
  { split; [vm_compute; reflexivity|]. intros _. split; vm_compute; repeat constructor; discriminate. }
  vm_compute. repeat split; congruence.
Qed.

(* non-vacuity of the inspection theorem: the program above, broken inside the
   subroutine inside the loop; a three-statement inspection line whose second
   statement fails *)
Example C07_inspection_example :
  let s0 := run_state 300 C07_s0 [HCont; HCont; HCont; HBreak] in
  let text := bs "PRINT I; A : ? ABS(0-I)/0 : PRINT X" in
  state s0 = Idle /\ breakpoint s0 <> None /\ outputs s0 = []
  /\ (exists ts, imm_line text ts /\ insp_line ts = true)
  /\ values 300 s0 (HLine text :: conts 2)
  /\ state (run_state 300 s0 (HLine text :: conts 2)) = Idle
  /\ snd (transcript 300 s0 (HLine text :: conts 2)) = [(EDivisionByZero, Some (mkloc None 13))].
Proof.
  cbn zeta. split; [vm_compute; reflexivity|]. split; [vm_compute; discriminate|]. split; [vm_compute; reflexivity|].
  split.
  { eexists. split; [split; [vm_compute; reflexivity | split; [vm_compute; reflexivity | eexists; split; [vm_compute; reflexivity | reflexivity]]]|].
    vm_compute. reflexivity. }
  split; [vm_compute; repeat split|]. split; vm_compute; reflexivity.
Qed.

Print Assumptions C07_break_cont_running.
Print Assumptions C07_break_cont_awaiting.
Print Assumptions C07_run_establishes.
Print Assumptions C07_invariant_kept.
Print Assumptions C07_schedule.
Print Assumptions C07_inspect.
Print Assumptions C07_no_tokenizer_error_at_run_time.
Print Assumptions C07_inspection_keeps_runtime.
Print Assumptions C07_inspection_transparent.
