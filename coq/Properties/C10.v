(* C10 — RUN starts from a clean slate regardless of session history.
   Statements only; proofs are in Proofs/ResetProofs.v. *)
From Coq Require Import List NArith ZArith Bool.
From Abasic Require Import Model.Bytes Model.Num Model.Token Model.Data Model.Lexer Gen.Tables
     Model.State Model.Eval Model.Interp Proofs.Monad Proofs.Frames Proofs.StoreProofs Proofs.ResetProofs
     Proofs.StoreExt Proofs.StoreBehaviour.
Import ListNotations.

(* [persistent_eq]: same program (both indexes), same generator state, same
   two flags (and the same model-only pow oracle).  NOTHING ELSE is assumed
   about the two states: variables, arrays, loops, GOSUB/FN stack, functions,
   data cursor, breakpoint, pending reply, immediate line and cursor may all
   differ arbitrarily -- i.e. the two interpreters may have any histories. *)
Theorem C10_clean : forall fuel s1 s2,
  state s1 = Idle -> state s2 = Idle -> persistent_eq s1 s2 -> outputs s1 = outputs s2 ->
  step fuel s1 (HLine (bs "RUN")) = step fuel s2 (HLine (bs "RUN")).
Proof. exact run_clean_slate. Qed.
Check C10_clean : forall fuel s1 s2,
  state s1 = Idle -> state s2 = Idle -> persistent_eq s1 s2 -> outputs s1 = outputs s2 ->
  step fuel s1 (HLine (bs "RUN")) = step fuel s2 (HLine (bs "RUN")).

(* ... and so is every later call of the session (rows and states) *)
Theorem C10_history : forall fuel ops s1 s2,
  state s1 = Idle -> state s2 = Idle -> persistent_eq s1 s2 -> outputs s1 = outputs s2 ->
  run_ops fuel s1 (HLine (bs "RUN") :: ops) = run_ops fuel s2 (HLine (bs "RUN") :: ops).
Proof. exact run_clean_slate_history. Qed.

(* "holding the same program" need not mean the same internal store: two
   interpreters whose programs are equal as MAPS from line numbers to tokens
   (entered in different orders, edited differently on the way) answer RUN
   and every later call with the same rows — outcome, state, drained output
   queue, caret, message, reads (Proofs/StoreExt.v, StoreBehaviour.v) *)
Theorem C10_history_same_map : forall fuel s t ops,
  state s = Idle -> state t = Idle -> same_program s t ->
  rng s = rng t -> enable_warnings s = enable_warnings t -> enable_tracing s = enable_tracing t ->
  pow_oracle s = pow_oracle t -> outputs s = outputs t ->
  Forall2 orow_same (run_ops fuel s (HLine (bs "RUN") :: ops)) (run_ops fuel t (HLine (bs "RUN") :: ops))
  /\ sim (run_state fuel s (HLine (bs "RUN") :: ops)) (run_state fuel t (HLine (bs "RUN") :: ops)).
Proof. exact run_depends_on_map. Qed.

(* what RUN computes before the first statement is an explicit function of
   the persistent part only *)
Theorem C10_reset : forall fuel s, state s = Idle ->
  evaluate_impl fuel (bs "RUN") s = run_next_statement fuel (clean s).
Proof. exact evaluate_impl_RUN. Qed.

(* non-vacuity: a state with a variable, an array, an open loop, a frame, a
   half-read DATA list, a breakpoint and a pending reply, against the state
   of a fresh interpreter holding the same two lines *)
Example C10_example :
  let prog := [HLine (bs "10 DATA 1,2"); HLine (bs "20 PRINT X")] in
  let dirty := [HLine (bs "X = 5"); HLine (bs "DIM A(3)"); HLine (bs "FOR I = 1 TO 9"); HLine (bs "READ Q")] in
  let s1 := run_state 100 init_interp (prog ++ dirty) in
  let s2 := run_state 100 init_interp prog in
  state s1 = Idle /\ state s2 = Idle /\ persistent_eq s1 s2 /\ outputs s1 = outputs s2
  /\ variables s1 <> variables s2 /\ loops s1 <> loops s2 /\ data_it s1 <> data_it s2.
Proof. vm_compute. repeat split; congruence. Qed.

Print Assumptions C10_clean.
Print Assumptions C10_history.
Print Assumptions C10_history_same_map.
Print Assumptions C10_reset.
