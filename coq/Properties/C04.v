(* C04 — The program store is a last-writer-wins map, listed and run in line
   order.  Only statements, [exact]s and Print Assumptions live here; the
   proofs are in Proofs/StoreProofs.v. *)
From Coq Require Import List NArith ZArith Bool Sorted.
From Abasic Require Import Model.Bytes Model.Num Model.Token Model.Data Model.Lexer Gen.Tables
     Model.State Model.Eval Model.Interp Proofs.Monad Proofs.Frames Proofs.StoreProofs Proofs.StoreExt Proofs.StoreBehaviour
     Model.RustColl Gen.ProgramLinesRs Proofs.StoreTie.
Import ListNotations.
Open Scope N_scope.

(* For EVERY history of host calls (edits interleaved with commands, immediate
   statements, running programs, replies, breaks, NEW+replace), from any start
   state, the stored program is the abstract map obtained by folding the
   three-line specification [spec_step] over the calls the protocol allows:
   a line that is a command, is unnumbered or fails to tokenize changes
   nothing; a numbered line sets (or, when empty, deletes) its number. *)
Theorem C04_refines : forall fuel ops s m,
  (forall k, abs s k = m k) ->
  forall k, abs (run_state fuel s ops) k = spec_run fuel s m ops k.
Proof. exact store_refines_spec. Qed.
Check C04_refines : forall fuel ops s m, (forall k, abs s k = m k) ->
  forall k, abs (run_state fuel s ops) k = spec_run fuel s m ops k.

(* one call: the store changes exactly as the specification says *)
Theorem C04_step : forall fuel s op, legal s op = true ->
  let s' := snd (step fuel s op) in
  (forall k, abs s' k = spec_step (abs s) op k) /\ (store_ok s -> store_ok s').
Proof. exact step_store. Qed.

(* both indexes always agree: the sorted set is strictly ascending, holds
   exactly the keys of the token map, and no stored line is empty *)
Theorem C04_agree : forall fuel ops, store_ok (run_state fuel init_interp ops).
Proof. intros; apply store_ok_reachable; apply store_ok_init. Qed.
Check C04_agree : forall fuel ops, store_ok (run_state fuel init_interp ops).

(* LIST cannot hit the unwrap and prints one record per key, keys ascending *)
Theorem C04_list : forall s, store_ok s ->
  exists ls, list_lines (st_keys s) (st_toks s) = Ok ls
    /\ length ls = length (st_keys s) /\ keys_sorted (st_keys s).
Proof. exact list_output_ordered. Qed.

(* RUN order: first = least key; the successor of ANY n (no upper bound: this
   includes 18446744073709551615) is the least key strictly above it *)
Theorem C04_first : forall s, store_ok s ->
  match store_first s with
  | Some m => In m (st_keys s) /\ forall k, In k (st_keys s) -> m <= k
  | None => st_keys s = []
  end.
Proof. exact store_first_spec. Qed.

Theorem C04_run_order : forall n l, keys_sorted l ->
  match keys_after n l with
  | Some m => In m l /\ n < m /\ forall k, In k l -> n < k -> m <= k
  | None => forall k, In k l -> k <= n
  end.
Proof. exact keys_after_spec. Qed.
Check C04_run_order : forall n l, keys_sorted l ->
  match keys_after n l with
  | Some m => In m l /\ n < m /\ forall k, In k l -> n < k -> m <= k
  | None => forall k, In k l -> k <= n
  end.

Theorem C04_number : forall line n e, parse_line_number line = Some (n, e) -> n <= U64_MAX.
Proof. exact parse_line_number_range. Qed.

(* Order of entry is irrelevant, behaviourally: two sequences of numbered-line
   entries (any texts that are edits: additions, replacements, deletions)
   typed into a fresh interpreter that leave the same MAP leave interpreters
   that answer every later session — LIST, RUN, immediate statements, further
   edits, replies, breaks — with the same rows (outcome, state, drained output
   queue, caret, message, reads; Proofs/StoreExt.v: a two-run simulation for
   states that differ only in the internal order of the stored lines), and
   hold the same map afterwards. *)
Theorem C04_entry_order_irrelevant : forall fuel o ops1 ops2,
  Forall is_edit ops1 -> Forall is_edit ops2 ->
  let s1 := run_state fuel (fresh o) ops1 in
  let s2 := run_state fuel (fresh o) ops2 in
  (forall k, abs s1 k = abs s2 k) ->
  forall ops, Forall2 orow_same (run_ops fuel s1 ops) (run_ops fuel s2 ops)
              /\ same_program (run_state fuel s1 ops) (run_state fuel s2 ops).
Proof. exact entry_order_irrelevant. Qed.

(* non-vacuity: the two orders of entry give different internal stores *)
Example C04_orders_differ :
  let a := map (fun t => HLine (bs t)) ["10 PRINT 1"; "20 PRINT 2"]%string in
  let b := map (fun t => HLine (bs t)) ["20 PRINT 2"; "10 PRINT 0"; "10 PRINT 1"]%string in
  Forall is_edit a /\ Forall is_edit b
  /\ st_toks (run_state 50 (fresh []) a) <> st_toks (run_state 50 (fresh []) b)
  /\ forall k, abs (run_state 50 (fresh []) a) k = abs (run_state 50 (fresh []) b) k.
Proof.
  cbn zeta. split; [|split; [|split]].
  - repeat constructor; eexists _, _, _; (split; [reflexivity | vm_compute; reflexivity]).
  - repeat constructor; eexists _, _, _; (split; [reflexivity | vm_compute; reflexivity]).
  - vm_compute. discriminate.
  - intros k. unfold abs.
    assert (Ea : st_toks (run_state 50 (fresh []) (map (fun t => HLine (bs t)) ["10 PRINT 1"; "20 PRINT 2"]%string))
                 = [(20, [TPrint; TNumber (f64_of_Z 2)]); (10, [TPrint; TNumber (f64_of_Z 1)])]) by (vm_compute; reflexivity).
    assert (Eb : st_toks (run_state 50 (fresh []) (map (fun t => HLine (bs t)) ["20 PRINT 2"; "10 PRINT 0"; "10 PRINT 1"]%string))
                 = [(10, [TPrint; TNumber (f64_of_Z 1)]); (20, [TPrint; TNumber (f64_of_Z 2)])]) by (vm_compute; reflexivity).
    rewrite Ea, Eb. cbn [toks_get].
    destruct (N.eqb_spec 20 k), (N.eqb_spec 10 k); subst; try reflexivity; discriminate.
Qed.

(* non-vacuity: entering 20 A / 10 B / 20 / 010 C / 10 + an unterminated string leaves {10 -> C} *)
Example C04_example :
  let ops := map (fun t => HLine (bs t)) ["20 A"; "10 B"; "20"; "010 C"; "10 """]%string in
  let s := run_state 50 init_interp ops in
  st_keys s = [10] /\ abs s 10 = Some [TSymbol (bs "C")] /\ abs s 20 = None.
Proof. vm_compute. repeat split. Qed.

(* THE TIE TO program_lines.rs BY TRANSLATION.  Gen/ProgramLinesRs.v holds the
   five methods of ProgramLines the interpreter uses, translated call by call
   from the source text on this run (which field, which collection call, in
   which branch; Model/RustColl.v gives the calls their meaning on an
   ascending key list and an association list).  They are the model's store
   operations, for every state, line number and token list — so the theorems
   above are re-checked against the calls the code makes now. *)
Theorem C04_code_first : forall s, rs_pl_first (st_toks s) (st_keys s) = store_first s.
Proof. exact rs_pl_first_is_model. Qed.
Theorem C04_code_after : forall s n, rs_pl_after (st_toks s) (st_keys s) n = store_after n s.
Proof. exact rs_pl_after_is_model. Qed.
Theorem C04_code_has : forall s n, rs_pl_has (st_toks s) (st_keys s) n = store_has n s.
Proof. exact rs_pl_has_is_model. Qed.
Theorem C04_code_get : forall s n, rs_pl_get (st_toks s) (st_keys s) n = toks_get n (st_toks s).
Proof. exact rs_pl_get_is_model. Qed.
Theorem C04_code_set : forall s n ts,
  store_set n ts s = set_store (fst (rs_pl_set (st_toks s) (st_keys s) n ts)) (snd (rs_pl_set (st_toks s) (st_keys s) n ts)) s.
Proof. exact rs_pl_set_is_model. Qed.

(* non-vacuity, on the translated code: enter 30, 10, 20, replace 10, delete 20; successor of 10 and of 2^64-1 *)
Example C04_code_example :
  let put n ts (p : list (N * list token) * list N) := rs_pl_set (fst p) (snd p) n ts in
  let p := put 20 [] (put 10 [TEnd] (put 20 [TStop] (put 10 [TStop] (put 30 [TEnd] ([], []))))) in
  snd p = [10; 30] /\ rs_pl_get (fst p) (snd p) 10 = Some [TEnd] /\ rs_pl_has (fst p) (snd p) 20 = false /\
  rs_pl_first (fst p) (snd p) = Some 10 /\ rs_pl_after (fst p) (snd p) 10 = Some 30 /\
  rs_pl_after (fst p) (snd p) 18446744073709551615 = None.
Proof. vm_compute. repeat split. Qed.

Print Assumptions C04_refines.
Print Assumptions C04_step.
Print Assumptions C04_agree.
Print Assumptions C04_list.
Print Assumptions C04_first.
Print Assumptions C04_run_order.
Print Assumptions C04_number.
Print Assumptions C04_entry_order_irrelevant.
Print Assumptions C04_code_first.
Print Assumptions C04_code_after.
Print Assumptions C04_code_has.
Print Assumptions C04_code_get.
Print Assumptions C04_code_set.
