(* C15 — Loading a file equals typing it in; CLI options apply in both modes.
   Statements only; proofs are in Proofs/LoadProofs.v (on Proofs/AnalyzerFrame.v).

   [analyze fuel text] models SourceFileAnalyzer::analyze, [into_interpreter]
   the loader both `abasic FILE` and `abasic --skip-check FILE` use,
   [run_state fuel s (map HLine lines)] entering the lines one by one at the
   prompt.  [wf_line l]: entering [l] is an edit that stores at least one token
   (numbered, non-empty, tokenizable).  [configure w t seed] is
   CliArgs::configure_interpreter. *)
From Coq Require Import List NArith ZArith Bool.
From Abasic Require Import Model.Bytes Model.Num Model.Token Model.Data Model.Lexer Gen.Tables
     Model.State Model.Eval Model.Interp Model.Analyzer Proofs.Monad Proofs.Frames Proofs.StoreProofs
     Proofs.Safety Proofs.AnalyzerFrame Proofs.AnalyzerProofs Proofs.LoadProofs.
Import ListNotations.
Local Open Scope nat_scope.

(* Pass 1 of the analyzer stores exactly what typing stores: the two
   interpreter STATES are equal, line after line. *)
Theorem C15_pass1_is_typing : forall fuel lines i p s,
  Forall wf_line lines -> settled s -> p_prog p = s ->
  p_prog (pass1_lines i lines p) = run_state fuel s (map HLine lines)
  /\ settled (run_state fuel s (map HLine lines)).
Proof. exact pass1_is_typing. Qed.

(* The analysis itself — whatever it reports — changes nothing of the
   interpreter but cursor, function table, DATA cursor and hook counter. *)
Theorem C15_analysis_keeps_program : forall fuel text,
  AF (snd (run_from_first_numbered_line (p_prog (pass1_of text)))) (an_program (analyze fuel text)).
Proof. exact an_program_AF. Qed.

(* Hence: the loaded interpreter IS the typed-in interpreter (every field but
   the hook counter, which each host call resets first). *)
Theorem C15_load_eq : forall fuel fuel' text,
  Forall wf_line (split_lines text) ->
  set_reads 0 (into_interpreter (analyze fuel text))
  = set_reads 0 (run_state fuel' init_interp (map HLine (split_lines text))).
Proof. exact load_equals_typing. Qed.

(* ... so LIST, RUN and everything else answer identically, call for call. *)
Theorem C15_same_behaviour : forall fuel s1 s2 ops,
  set_reads 0 s1 = set_reads 0 s2 ->
  (forall op, In op ops -> match op with HFlags _ _ | HNew => False | _ => True end) ->
  run_ops fuel s1 ops = run_ops fuel s2 ops.
Proof. exact same_behaviour. Qed.

(* The command line: in file mode and in piped mode the session talks to the
   same interpreter, and in both the options are on it. *)
Theorem C15_options : forall w t seed fuel fuel' text,
  Forall wf_line (split_lines text) ->
  set_reads 0 (cli_file_mode w t seed fuel text)
  = set_reads 0 (cli_piped_mode w t seed fuel' (split_lines text))
  /\ enable_warnings (cli_file_mode w t seed fuel text) = w
  /\ enable_tracing (cli_file_mode w t seed fuel text) = t
  /\ rng (cli_file_mode w t seed fuel text) = rng_new seed.
Proof. exact cli_modes_agree. Qed.

(* Process I/O (stdout / stderr routing, banner, prompts, exit status,
   rustyline) is glue: exercised by running the real binary in both modes for
   all 8 option combinations, not modelled. *)

(* non-vacuity *)
Example C15_example :
  let text := bs "10 PRINT X" ++ [10%N] ++ bs "20 GOTO 40" ++ [10%N] ++ bs "5 DIM A(3)" in
  forallb (fun l => match edit_of l with Some (_, _ :: _) => true | _ => false end) (split_lines text) = true
  /\ an_messages (analyze 100 text) <> []
  /\ set_reads 0 (cli_file_mode true true 7 100 text)
     = set_reads 0 (cli_piped_mode true true 7 100 (split_lines text)).
Proof. vm_compute. repeat split; congruence. Qed.

Print Assumptions C15_pass1_is_typing.
Print Assumptions C15_analysis_keeps_program.
Print Assumptions C15_load_eq.
Print Assumptions C15_same_behaviour.
Print Assumptions C15_options.
