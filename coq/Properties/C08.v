(* C08 — INPUT suspends and resumes without disturbing the rest of the program.
   Statements only; proofs are in Proofs/InputProofs.v.

   Throughout: [toks] are the tokens of the current line (numbered or
   immediate), [loc_idx (loc s)] is the token cursor, [trace_of s] is the one
   TRACE record a numbered line emits when tracing is on (else nothing),
   [reads] is the hook counter of cursor reads.  The statements hold for ANY
   state [s] whose cursor is on an INPUT token: after other statements on the
   line, inside THEN or ELSE, in a loop or subroutine — the surrounding tokens,
   the stacks and everything else are arbitrary. *)
From Coq Require Import List NArith ZArith Bool.
From Abasic Require Import Model.Bytes Model.Num Model.Token Model.Data Model.Lexer Gen.Tables
     Model.State Model.Eval Model.Interp Proofs.Monad Proofs.Frames Proofs.StoreProofs
     Proofs.ExprSem Proofs.Safety Proofs.InputProofs.
Import ListNotations.
Local Open Scope nat_scope.

(* Reaching INPUT with no reply pending: the interpreter awaits input; nothing
   but the state flag changes (plus trace record and hook counter); the cursor
   is ON the INPUT token again. *)
Theorem C08_await : forall fuel n s toks,
  fst (cur_tokens s) = Ok toks ->
  nth_error toks (loc_idx (loc s)) = Some TInput ->
  input s = None ->
  1 <= fuel -> n < max_nesting ->
  evaluate_statement fuel n s
  = (Ok tt, set_reads (2 + reads s)
              (set_state AwaitingInput (set_outputs (outputs s ++ trace_of s) s))).
Proof. exact input_awaits. Qed.

(* The host API: the reply is recorded, the interpreter is Running, and the
   next call executes the statement under the cursor — the INPUT token — and
   nothing before it; then the fixed tail of every turn. *)
Theorem C08_resume : forall fuel text s,
  state s = AwaitingInput -> line_exists s (loc s) ->
  nth_error (cur_toks s) (loc_idx (loc s)) = Some TInput ->
  let s1 := snd (provide_input text s) in
  state s1 = Running /\ input s1 = Some text /\ loc s1 = loc s
  /\ continue_evaluating fuel s1
     = postprocess ((evaluate_statement fuel 0 ;;; after_statement) (bump s1)).
Proof. exact reply_resumes_at_input. Qed.

(* A reply whose first item suits the target: for ANY target (scalar or array
   cell) the statement parses the target and then does exactly what the
   assignment statement ends with — [assign_value lv val] — followed by
   EXTRA IGNORED iff anything of the reply is left; text offered to a numeric
   target gives REENTER and awaits again. *)
Theorem C08_reply_any_target : forall fuel n s toks text first more consumed lv s2,
  fst (cur_tokens s) = Ok toks ->
  let i := loc_idx (loc s) in
  nth_error toks i = Some TInput ->
  input s = Some text ->
  parse_data text = (first :: more, consumed) ->
  n < max_nesting ->
  parse_lvalue fuel (S n)
     (at_idx (set_input None s) (S i) (S (reads s)) (outputs s ++ trace_of s)) = (Ok lv, s2) ->
  evaluate_statement (S fuel) n s
  = match coerce_data (lv_sym lv) first with
    | Ok val =>
        (assign_value lv val ;;;
         if excess_of more consumed text then push_output OExtraIgnored else ret tt) s2
    | Err EDataTypeMismatch _ => (push_output OReenter ;;; rewind_program_and_await_input) s2
    | Err e l => (Err e l, s2)
    | _ => (Panic PCellIndex, s2)
    end.
Proof. exact input_reply_any_target. Qed.

(* Scalar target, explicit final state: the variable holds the value, the
   cursor is just after the target, EXTRA IGNORED iff items or text are left,
   every other field is unchanged. *)
Theorem C08_accept : forall fuel n s toks v text first more consumed val,
  fst (cur_tokens s) = Ok toks ->
  let i := loc_idx (loc s) in
  nth_error toks i = Some TInput ->
  nth_error toks (S i) = Some (TSymbol v) ->
  nth_error toks (S (S i)) <> Some TLeftParen ->
  input s = Some text ->
  parse_data text = (first :: more, consumed) ->
  coerce_data v first = Ok val ->
  1 <= fuel -> n < max_nesting ->
  let r := evaluate_statement fuel n s in
  let s' := snd r in
  fst r = Ok tt
  /\ variables s' = alist_set v val (variables s)
  /\ variables s' = variables (snd (variables_set v val s))        (* what LET v = val stores *)
  /\ type_matches v val = true
  /\ input s' = None
  /\ loc s' = mkloc (loc_line (loc s)) (S (S i))
  /\ outputs s' = outputs s ++ trace_of s ++ extra_of more consumed text
  /\ (extra_of more consumed text = [OExtraIgnored] <-> (more <> [] \/ consumed < length text))
  /\ (extra_of more consumed text = [] <-> ~ (more <> [] \/ consumed < length text))
  /\ reads s' = 3 + reads s
  /\ state s' = state s
  /\ arrays s' = arrays s /\ stack s' = stack s
  /\ loops s' = loops s /\ data_it s' = data_it s /\ functions s' = functions s
  /\ breakpoint s' = breakpoint s /\ rng s' = rng s
  /\ st_toks s' = st_toks s /\ st_keys s' = st_keys s /\ immediate s' = immediate s
  /\ enable_warnings s' = enable_warnings s /\ enable_tracing s' = enable_tracing s
  /\ pow_oracle s' = pow_oracle s.
Proof. exact input_accepts_scalar_frame. Qed.

(* ... which is the assignment, as a program: *)
Theorem C08_accept_is_assignment : forall fuel n s toks v text first more consumed val,
  fst (cur_tokens s) = Ok toks ->
  let i := loc_idx (loc s) in
  nth_error toks i = Some TInput ->
  nth_error toks (S i) = Some (TSymbol v) ->
  nth_error toks (S (S i)) <> Some TLeftParen ->
  input s = Some text ->
  parse_data text = (first :: more, consumed) ->
  coerce_data v first = Ok val ->
  1 <= fuel -> n < max_nesting ->
  evaluate_statement fuel n s
  = (assign_value (mklv v None) val ;;;
     if excess_of more consumed text then push_output OExtraIgnored else ret tt)
      (set_input None (at_idx s (S (S i)) (3 + reads s) (outputs s ++ trace_of s))).
Proof. exact input_accept_is_assignment. Qed.

(* Text offered to a numeric variable: REENTER, awaiting input, the cursor ON
   the INPUT token again, the reply consumed, nothing else touched ... *)
Theorem C08_reenter : forall fuel n s toks v text t more consumed,
  fst (cur_tokens s) = Ok toks ->
  let i := loc_idx (loc s) in
  nth_error toks i = Some TInput ->
  nth_error toks (S i) = Some (TSymbol v) ->
  nth_error toks (S (S i)) <> Some TLeftParen ->
  input s = Some text ->
  parse_data text = (DStr t :: more, consumed) ->
  ends_with_dollar v = false ->
  1 <= fuel -> n < max_nesting ->
  evaluate_statement fuel n s
  = (Ok tt,
     set_reads (5 + reads s)
       (set_state AwaitingInput
          (set_input None
             (set_outputs (outputs s ++ trace_of s ++ [OReenter]) s)))).
Proof. exact input_reenter_text. Qed.

(* ... i.e. "the same request again": but for the REENTER record and the hook
   counter the state IS the state of the first request. *)
Theorem C08_reenter_same_request : forall fuel n s toks v text first more consumed,
  fst (cur_tokens s) = Ok toks ->
  let i := loc_idx (loc s) in
  nth_error toks i = Some TInput ->
  nth_error toks (S i) = Some (TSymbol v) ->
  nth_error toks (S (S i)) <> Some TLeftParen ->
  input s = Some text ->
  parse_data text = (first :: more, consumed) ->
  coerce_data v first = Err EDataTypeMismatch None ->
  1 <= fuel -> n < max_nesting ->
  let first_request := snd (evaluate_statement fuel n (set_input None s)) in
  evaluate_statement fuel n s
  = (Ok tt, set_reads (3 + reads first_request)
              (set_outputs (outputs first_request ++ [OReenter]) first_request)).
Proof. exact input_reenter_same_request. Qed.

(* Every reply text whatsoever (numbers, text, empty, quoted, lists, blanks)
   is either stored or refused with REENTER; there is no third outcome. *)
Theorem C08_reply_total : forall fuel n s toks v text,
  fst (cur_tokens s) = Ok toks ->
  let i := loc_idx (loc s) in
  nth_error toks i = Some TInput ->
  nth_error toks (S i) = Some (TSymbol v) ->
  nth_error toks (S (S i)) <> Some TLeftParen ->
  input s = Some text ->
  1 <= fuel -> n < max_nesting ->
  exists first more consumed,
    parse_data text = (first :: more, consumed)
    /\ ((exists val, coerce_data v first = Ok val
                     /\ variables (snd (evaluate_statement fuel n s)) = alist_set v val (variables s)
                     /\ state (snd (evaluate_statement fuel n s)) = state s)
        \/ (coerce_data v first = Err EDataTypeMismatch None
            /\ ends_with_dollar v = false /\ (exists t, first = DStr t)
            /\ variables (snd (evaluate_statement fuel n s)) = variables s
            /\ state (snd (evaluate_statement fuel n s)) = AwaitingInput))
    /\ fst (evaluate_statement fuel n s) = Ok tt.
Proof. exact input_reply_total. Qed.

(* non-vacuity: INPUT inside THEN with an ELSE behind it, in a FOR loop inside
   a subroutine.  After RUN and some turns the interpreter awaits input with
   the cursor on the INPUT token (the premises of C08_resume), a text reply is
   refused with REENTER, a numeric one is stored, and the ELSE is skipped. *)
Definition C08_demo_ops : list hostop :=
  map (fun t => HLine (bs t))
      ["10 GOSUB 30"; "20 END"; "30 FOR I = 1 TO 2";
       "40 IF I THEN INPUT X : PRINT X+I ELSE PRINT ""NO"""; "50 NEXT I : RETURN"; "RUN"]%string
  ++ [HCont; HCont; HCont].

Example C08_example :
  let s := run_state 200 init_interp C08_demo_ops in
  state s = AwaitingInput /\ line_exists s (loc s)
  /\ nth_error (cur_toks s) (loc_idx (loc s)) = Some TInput
  /\ input s = None /\ stack s <> [] /\ loops s <> []
  /\ map (fun o => option_map r_outputs o)
         (run_ops 200 s [HReply (bs "abc"); HCont; HReply (bs "7, 8"); HCont; HCont; HCont])
     = [Some []; Some (canon_output OReenter); Some []; Some (canon_output OExtraIgnored); Some [];
        Some (canon_output (OPrint (bs "8" ++ [10%N])))].
Proof. vm_compute. repeat split; congruence. Qed.

Print Assumptions C08_await.
Print Assumptions C08_resume.
Print Assumptions C08_reply_any_target.
Print Assumptions C08_accept.
Print Assumptions C08_accept_is_assignment.
Print Assumptions C08_reenter.
Print Assumptions C08_reenter_same_request.
Print Assumptions C08_reply_total.
