(* C16 — Runtime state stays within its caps and obeys name-suffix typing.
   Statements only; proofs are in Proofs/Caps.v. *)
From Coq Require Import List NArith ZArith Bool.
From Abasic Require Import Model.Bytes Model.Num Model.Token Model.Data Model.Lexer Gen.Tables
     Model.State Model.Eval Model.Interp Proofs.Monad Proofs.Frames Proofs.StoreProofs Proofs.Caps
     Model.RustInt Gen.ArraysRs Gen.ProgramEvents Proofs.ArraysTie.
Import ListNotations.
Local Open Scope nat_scope.

(* [caps_inv]: at most 32 frames, at most 32 open loops with pairwise distinct
   variables, every variable / frame binding / array cell typed by its name's
   `$` suffix, every array's cell count = product of its dimensions <= 10000.
   It holds at EVERY turn boundary of EVERY session: the only hypothesis is
   reachability from a fresh interpreter by host calls (legal or not). *)
Theorem C16_inv : forall fuel oracle ops, caps_inv (run_state fuel (fresh oracle) ops).
Proof. exact caps_session. Qed.
Check C16_inv : forall fuel oracle ops, caps_inv (run_state fuel (fresh oracle) ops).

Theorem C16_step : forall fuel s op, caps_inv s -> caps_inv (snd (step fuel s op)).
Proof. exact caps_step. Qed.

(* it holds after every outcome of every evaluator -- also after errors *)
Theorem C16_statement : forall fuel n, mrel (inv_rel caps_inv) (evaluate_statement fuel n).
Proof. exact caps_evaluate_statement. Qed.
Theorem C16_expression : forall fuel n, mrel (inv_rel caps_inv) (evaluate_expression fuel n).
Proof. exact caps_evaluate_expression. Qed.

(* in numbers, against the constants regenerated from the Rust source *)
Theorem C16_numeric : forall s, caps_inv s ->
  (N.of_nat (length (stack s)) <= STACK_LIMIT)%N
  /\ (N.of_nat (length (loops s)) <= STACK_LIMIT)%N
  /\ (forall name a, In (name, a) (arrays s) ->
        N.of_nat (length (ar_cells a)) = dims_product (ar_dims a)
        /\ (N.of_nat (length (ar_cells a)) <= MAX_DIM_TOTAL_ELEMENTS)%N).
Proof. exact caps_numeric. Qed.

(* exceeding a cap is an OUT OF MEMORY error that changes nothing (GOSUB, FN
   call) or only forgets the loops FOR forgets anyway; below the cap the
   error cannot occur *)
Theorem C16_gosub_cap : forall n s,
  length (stack s) = stack_limit -> gosub_line_number n s = (Err EStackOverflow None, s).
Proof. exact gosub_overflow. Qed.
Theorem C16_fn_cap : forall name b s,
  length (stack s) = stack_limit -> push_function_call name b s = (Err EStackOverflow None, s).
Proof. exact push_function_call_overflow. Qed.
Theorem C16_for_cap : forall sym a b c s,
  length (loops_below sym (loops s)) = stack_limit ->
  start_loop sym a b c s = (Err EStackOverflow None, drop_loop sym s).
Proof. exact start_loop_overflow. Qed.
Theorem C16_dim_cap : forall name idx s,
  idx <> [] -> alist_has name (arrays s) = false ->
  (MAX_DIM_TOTAL_ELEMENTS < dims_product (dim_sizes idx))%N ->
  arrays_create name idx s = (Err EArrayTooLarge None, s).
Proof. exact arrays_create_too_large. Qed.
Theorem C16_dim_fits : forall name idx s,
  idx <> [] -> alist_has name (arrays s) = false ->
  (dims_product (dim_sizes idx) <= MAX_DIM_TOTAL_ELEMENTS)%N ->
  exists a, arrays_create name idx s = (Ok tt, set_arrays (alist_set name a (arrays s)) s)
            /\ arr_ok name a /\ ar_dims a = dim_sizes idx.
Proof. exact arrays_create_fits. Qed.

(* re-entering a FOR (GOTO before it) or abandoning inner loops does not
   accumulate state *)
Theorem C16_no_accumulation : forall sym a b c s,
  let s' := snd (start_loop sym a b c s) in
  length (loops s') <= S (length (loops s))
  /\ (In sym (map lp_sym (loops s)) -> length (loops s') <= length (loops s)).
Proof. exact start_loop_growth. Qed.
Theorem C16_loops_le_variables : forall s univ,
  caps_inv s -> incl (map lp_sym (loops s)) univ -> length (loops s) <= length univ.
Proof. exact loops_bounded_by_variables. Qed.

(* THE TIE TO arrays.rs BY TRANSLATION.  Gen/ArraysRs.v holds DimArray::new and
   DimArray::get_linear_index as translated statement by statement from the
   source text on this run (usize arithmetic; an unchecked operation that
   overflows is UPanic).  The translated constructor never panics and is the
   model's array_create_value for EVERY list of subscripts; every array it
   builds has dimensions >= 1 whose product is within the cap; and on every
   such array, with ANY subscripts, the unchecked `+=` / `*=` of the translated
   get_linear_index never overflow, its only error is BAD SUBSCRIPT, its value
   is the model's, and the index it returns lies inside the cells (so
   `self.values[linear_index]` in DimArray::get / set is in bounds). *)
Theorem C16_code_new : forall name mi,
  rs_dimarray_new mi <> UPanic /\ array_create_value name mi = rs_new_to_res name (rs_dimarray_new mi).
Proof. exact rs_dimarray_new_is_model. Qed.
Theorem C16_code_created_shape : forall name mi a,
  array_create_value name mi = Ok a -> shape_ok (ar_dims a) /\ ar_dims a = dim_sizes mi.
Proof. exact created_shape_ok. Qed.
Theorem C16_code_index : forall a indices, shape_ok (ar_dims a) ->
  rs_dimarray_get_linear_index (ar_dims a) indices <> UPanic /\
  (forall e, rs_dimarray_get_linear_index (ar_dims a) indices = UErr e -> e = "BadSubscript"%string) /\
  array_linear_index a indices = rs_index_to_res (rs_dimarray_get_linear_index (ar_dims a) indices).
Proof. exact rs_get_linear_index_is_model. Qed.
Theorem C16_code_index_in_cells : forall a indices i, shape_ok (ar_dims a) ->
  N.of_nat (length (ar_cells a)) = dims_product (ar_dims a) ->
  rs_dimarray_get_linear_index (ar_dims a) indices = UOk i -> (i < N.of_nat (length (ar_cells a)))%N.
Proof. exact rs_index_in_cells. Qed.
Check C16_code_index : forall a indices, shape_ok (ar_dims a) ->
  rs_dimarray_get_linear_index (ar_dims a) indices <> UPanic /\
  (forall e, rs_dimarray_get_linear_index (ar_dims a) indices = UErr e -> e = "BadSubscript"%string) /\
  array_linear_index a indices = rs_index_to_res (rs_dimarray_get_linear_index (ar_dims a) indices).

(* ... and so in EVERY state a session can reach ([caps_inv], which C16_inv establishes at every turn boundary,
   now also says that no dimension is 0): for every stored array and any subscripts the translated index computation
   does not panic, is the model's, and indexes inside the cells *)
Theorem C16_code_index_every_state : forall s name a indices, caps_inv s -> In (name, a) (arrays s) ->
  rs_dimarray_get_linear_index (ar_dims a) indices <> UPanic /\
  array_linear_index a indices = rs_index_to_res (rs_dimarray_get_linear_index (ar_dims a) indices) /\
  forall i, rs_dimarray_get_linear_index (ar_dims a) indices = UOk i -> (i < N.of_nat (length (ar_cells a)))%N.
Proof. exact rs_index_safe_in_every_state. Qed.

(* non-vacuity: DIM A(99,99) on the translated code (10000 cells, accepted), its last cell, DIM A(100,99) (10100,
   rejected), a huge subscript (checked_mul fails: the error, not a panic), and — why the shape hypothesis is
   there — dimensions DimArray::new can never produce on which the translated index computation does panic *)
Example C16_code_examples :
  rs_dimarray_new [99; 99]%N = UOk ([100; 100]%N, 10000%N) /\
  rs_dimarray_get_linear_index [100; 100]%N [99; 99]%N = UOk 9999%N /\
  rs_dimarray_get_linear_index [100; 100]%N [99; 100]%N = UErr "BadSubscript" /\
  rs_dimarray_new [100; 99]%N = UErr "ArrayTooLarge" /\
  rs_dimarray_new [18446744073709551615]%N = UErr "ArrayTooLarge" /\
  rs_dimarray_new [4294967296; 4294967296; 3]%N = UErr "ArrayTooLarge" /\
  rs_dimarray_get_linear_index [4294967296; 4294967296; 0]%N [1; 1; 0]%N = UPanic.
Proof. vm_compute. repeat split. Qed.

(* WHEN the caps are tested (program.rs, regenerated on every run as the order of events in the three methods that
   test a cap: Gen/ProgramEvents.v).  The model's start_loop / gosub_line_number / push_function_call (Model/State.v)
   do the same things in the same order: FOR forgets the old loop of its variable BEFORE testing the loop cap (so
   re-entering a FOR with 32 loops open is no overflow), GOSUB tests the frame cap before it jumps (so the error is
   located at the GOSUB), a user-function call tests the SAME frame cap before pushing; all three compare with
   `== STACK_LIMIT` and fail with StackOverflow. *)
Theorem C16_code_cap_order :
  program_events =
  [("start_loop", ["forget-loop"; "cap-test:loop_stack==STACK_LIMIT:StackOverflow"; "push:loop_stack"; "set-variable"]);
   ("gosub_line_number", ["cap-test:stack==STACK_LIMIT:StackOverflow"; "goto"; "push:stack"]);
   ("push_function_call_onto_stack_and_goto_it", ["cap-test:stack==STACK_LIMIT:StackOverflow"; "push:stack"; "set-location"])]%string.
Proof. reflexivity. Qed.
(* the same facts on the model, by unfolding: which test comes first *)
Theorem C16_model_cap_order : forall sym a b c n name bs s,
  (forall u s1, remove_loop_with_name sym s = (Ok u, s1) -> length (loops s1) = stack_limit ->
     start_loop sym a b c s = (Err EStackOverflow None, s1)) /\
  (length (stack s) = stack_limit -> gosub_line_number n s = (Err EStackOverflow None, s)) /\
  (length (stack s) = stack_limit -> push_function_call name bs s = (Err EStackOverflow None, s)).
Proof. exact model_cap_order. Qed.

Print Assumptions C16_inv.
Print Assumptions C16_step.
Print Assumptions C16_statement.
Print Assumptions C16_expression.
Print Assumptions C16_numeric.
Print Assumptions C16_gosub_cap.
Print Assumptions C16_fn_cap.
Print Assumptions C16_for_cap.
Print Assumptions C16_dim_cap.
Print Assumptions C16_dim_fits.
Print Assumptions C16_no_accumulation.
Print Assumptions C16_loops_le_variables.
Print Assumptions C16_code_new.
Print Assumptions C16_code_created_shape.
Print Assumptions C16_code_index.
Print Assumptions C16_code_index_in_cells.
Print Assumptions C16_code_index_every_state.
Print Assumptions C16_code_cap_order.
Print Assumptions C16_model_cap_order.
