(* C16 — Runtime state stays within its caps and obeys name-suffix typing.
   Statements only; proofs are in Proofs/Caps.v. *)
From Coq Require Import List NArith ZArith Bool.
From Abasic Require Import Model.Bytes Model.Num Model.Token Model.Data Model.Lexer Gen.Tables
     Model.State Model.Eval Model.Interp Proofs.Monad Proofs.Frames Proofs.StoreProofs Proofs.Caps.
Import ListNotations.
Local Open Scope nat_scope.

(* [caps_inv]: at most 32 frames, at most 32 open loops with pairwise distinct
   variables, every variable / frame binding / array cell typed by its name's
   `$` suffix, every array's cell count = product of its dimensions <= 10000.
   It holds at EVERY turn boundary of EVERY session: the only hypothesis is
   reachability from a fresh interpreter by host calls (legal or not). *)
Theorem C16_inv : forall fuel oracle ops, caps_inv (run_state fuel (fresh oracle) ops).
Proof. exact caps_session. Qed.
Check C16_inv : forall fuel oracle ops, caps_inv (run_state fuel (fresh oracle) ops).

Theorem C16_step : forall fuel s op, caps_inv s -> caps_inv (snd (step fuel s op)).
Proof. exact caps_step. Qed.

(* it holds after every outcome of every evaluator -- also after errors *)
Theorem C16_statement : forall fuel n, mrel (inv_rel caps_inv) (evaluate_statement fuel n).
Proof. exact caps_evaluate_statement. Qed.
Theorem C16_expression : forall fuel n, mrel (inv_rel caps_inv) (evaluate_expression fuel n).
Proof. exact caps_evaluate_expression. Qed.

(* in numbers, against the constants regenerated from the Rust source *)
Theorem C16_numeric : forall s, caps_inv s ->
  (N.of_nat (length (stack s)) <= STACK_LIMIT)%N
  /\ (N.of_nat (length (loops s)) <= STACK_LIMIT)%N
  /\ (forall name a, In (name, a) (arrays s) ->
        N.of_nat (length (ar_cells a)) = dims_product (ar_dims a)
        /\ (N.of_nat (length (ar_cells a)) <= MAX_DIM_TOTAL_ELEMENTS)%N).
Proof. exact caps_numeric. Qed.

(* exceeding a cap is an OUT OF MEMORY error that changes nothing (GOSUB, FN
   call) or only forgets the loops FOR forgets anyway; below the cap the
   error cannot occur *)
Theorem C16_gosub_cap : forall n s,
  length (stack s) = stack_limit -> gosub_line_number n s = (Err EStackOverflow None, s).
Proof. exact gosub_overflow. Qed.
Theorem C16_fn_cap : forall name b s,
  length (stack s) = stack_limit -> push_function_call name b s = (Err EStackOverflow None, s).
Proof. exact push_function_call_overflow. Qed.
Theorem C16_for_cap : forall sym a b c s,
  length (loops_below sym (loops s)) = stack_limit ->
  start_loop sym a b c s = (Err EStackOverflow None, drop_loop sym s).
Proof. exact start_loop_overflow. Qed.
Theorem C16_dim_cap : forall name idx s,
  idx <> [] -> alist_has name (arrays s) = false ->
  (MAX_DIM_TOTAL_ELEMENTS < dims_product (dim_sizes idx))%N ->
  arrays_create name idx s = (Err EArrayTooLarge None, s).
Proof. exact arrays_create_too_large. Qed.
Theorem C16_dim_fits : forall name idx s,
  idx <> [] -> alist_has name (arrays s) = false ->
  (dims_product (dim_sizes idx) <= MAX_DIM_TOTAL_ELEMENTS)%N ->
  exists a, arrays_create name idx s = (Ok tt, set_arrays (alist_set name a (arrays s)) s)
            /\ arr_ok name a /\ ar_dims a = dim_sizes idx.
Proof. exact arrays_create_fits. Qed.

(* re-entering a FOR (GOTO before it) or abandoning inner loops does not
   accumulate state *)
Theorem C16_no_accumulation : forall sym a b c s,
  let s' := snd (start_loop sym a b c s) in
  length (loops s') <= S (length (loops s))
  /\ (In sym (map lp_sym (loops s)) -> length (loops s') <= length (loops s)).
Proof. exact start_loop_growth. Qed.
Theorem C16_loops_le_variables : forall s univ,
  caps_inv s -> incl (map lp_sym (loops s)) univ -> length (loops s) <= length univ.
Proof. exact loops_bounded_by_variables. Qed.

Print Assumptions C16_inv.
Print Assumptions C16_step.
Print Assumptions C16_statement.
Print Assumptions C16_expression.
Print Assumptions C16_numeric.
Print Assumptions C16_gosub_cap.
Print Assumptions C16_fn_cap.
Print Assumptions C16_for_cap.
Print Assumptions C16_dim_cap.
Print Assumptions C16_dim_fits.
Print Assumptions C16_no_accumulation.
Print Assumptions C16_loops_le_variables.
