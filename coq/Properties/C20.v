(* C20 — The language server survives any document and reports in-bounds positions.
   Statements only; proofs are in Proofs/LspProofs.v, on top of C05
   (Proofs/AnalyzerProofs.v) and C13 (Proofs/LexerRanges.v).

   [lsp_answer fuel text] is what the server publishes / returns for a
   document whose latest text is [text]: the diagnostics (analyze_source_file)
   and the delta-encoded semantic tokens (get_semantic_tokens) of the analysis
   of that text — a function of the latest text only.  A document's lines are
   its LF-separated pieces; columns are UTF-16 code units ([utf16_col],
   [utf16_width]). *)
From Coq Require Import List NArith ZArith Bool.
From Abasic Require Import Model.Bytes Model.Num Model.Token Model.Data Model.Lexer Gen.Tables
     Model.State Model.Eval Model.Interp Model.Analyzer Model.Lsp Proofs.LexerRanges
     Proofs.AnalyzerProofs Proofs.LspProofs.
Import ListNotations.
Local Open Scope nat_scope.

(* Every diagnostic lies inside the document: an existing line, start <= end
   <= the line's width, in UTF-16 units.  [msg_ok] as in C05 (it holds for every
   message of pass 1, in particular for every tokenizer error). *)
Theorem C20_inbounds : forall fuel text d,
  Forall (fun l => valid_utf8 l = true) (split_lines text) ->
  Forall (msg_ok (sm_ranges (an_map (analyze fuel text)))) (an_messages (analyze fuel text)) ->
  In d (diagnostics_of (split_lines text) (analyze fuel text)) ->
  d_line d < length (split_lines text)
  /\ d_start d <= d_end d
  /\ d_end d <= utf16_width (nth (d_line d) (split_lines text) []).
Proof. exact diagnostics_in_bounds. Qed.

(* The set of diagnostics equals the analyzer's messages (those that map to a
   source position): one each, nothing else, nothing dropped. *)
Theorem C20_complete : forall lines a d,
  In d (diagnostics_of lines a) <->
  exists msg fl x y, In msg (an_messages a) /\ map_to_source (an_map a) msg = Some (fl, (x, y))
    /\ d = mkdiag fl (utf16_col (nth fl lines []) x) (utf16_col (nth fl lines []) y) (severity_of msg).
Proof. exact diagnostics_complete. Qed.

(* Semantic tokens: the delta encoding decodes — no subtraction underflows,
   for every text — to exactly the analyzer's tokens, line by line in order ... *)
Theorem C20_tokens_decode : forall fuel text,
  Forall (fun l => valid_utf8 l = true) (split_lines text) ->
  decode_tokens (semantic_tokens_of (split_lines text) (analyze fuel text)) 0 0
  = abs_from (split_lines text) (an_tokens (analyze fuel text)) 0.
Proof. exact tokens_in_bounds. Qed.

(* ... each of which lies inside its line (existing line, start + length <= width) ... *)
Theorem C20_tokens_inbounds : forall lines tss i t,
  Forall (fun lt => ordered 0 lt) tss -> In t (abs_from lines tss i) ->
  let '(l, s, n, c) := t in i <= l /\ l < i + length tss /\ s + n <= utf16_width (nth l lines []).
Proof. exact abs_from_in_bounds. Qed.

(* ... with a type from the advertised legend (8 entries; Gen/Tables.v ties the
   class -> index map and the legend order to the Rust sources). *)
Theorem C20_token_types : forall fuel text, Forall cls_ok (an_tokens (analyze fuel text)).
Proof. exact token_types_in_legend. Qed.

Theorem C20_columns_monotone : forall line a b, a <= b -> utf16_col line a <= utf16_col line b <= utf16_width line.
Proof. intros line a b H. split; [apply utf16_col_mono, H|apply utf16_col_le_width]. Qed.

(* Liveness (the process keeps answering; every open/change is answered by one
   publishDiagnostics for the latest text; shutdown/exit end it with status 0)
   lives in the runtime: it is exercised on the real abasic-lsp binary over
   stdio on every run, and rests on C05's totality (validated). *)

(* non-vacuity: `20 PRINT "é" + 1` — the TYPE MISMATCH diagnostic is at UTF-16
   columns 15..16 of a 16-unit line (bytes 16..17 of a 17-byte line) *)
Example C20_example :
  let text := bs "20 PRINT """ ++ [195; 169]%N ++ bs """ + 1" in
  map canon_diag (fst (lsp_answer 100 text)) = [bs "0.15.16.1"]
  /\ utf16_width text = 16 /\ length text = 17
  /\ decode_tokens (snd (lsp_answer 100 text)) 0 0
     = [(0, 0, 2, 2%N); (0, 3, 5, 5%N); (0, 9, 3, 1%N); (0, 13, 1, 3%N); (0, 15, 1, 2%N)].
Proof. vm_compute. repeat split. Qed.

Print Assumptions C20_inbounds.
Print Assumptions C20_complete.
Print Assumptions C20_tokens_decode.
Print Assumptions C20_tokens_inbounds.
Print Assumptions C20_token_types.
Print Assumptions C20_columns_monotone.
