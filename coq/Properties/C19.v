(* C19 — The Web adapter is a faithful, trap-free wrapper under the page's protocol.
   Statements only; proofs are in Proofs/WebProofs.v (on C01's Proofs/Safety.v).

   [js] models abasic_web::JsInterpreter (the core interpreter plus the error
   latch); its asserts, the `panic!` arm of get_state and every core panic are
   [JTrap]; [JStuck] is the model's own OutOfFuel / OracleMiss.  [page_step]
   models the page script's handlers (submit, break key, timer tick, start-up)
   — a transliteration tied to abasic-web/ts/main.ts by the call skeleton that
   is regenerated from it on every run (C19_skeleton).  [JInv]: the core is
   well-formed, never left in the transient new-interpreter state, and idle
   whenever an error is latched. *)
From Coq Require Import List NArith ZArith Bool.
From Coq Require String.
From Abasic Require Import Model.Bytes Model.Num Model.Token Model.Data Model.Lexer Gen.Tables
     Model.State Model.Eval Model.Interp Model.Analyzer Model.Web
     Proofs.Monad Proofs.Frames Proofs.StoreProofs Proofs.ResetProofs Proofs.Safety Proofs.WebProofs
     Proofs.LoaderProofs.
Import ListNotations.
Local Open Scope nat_scope.

(* The adapter calls, under exactly the precondition the page establishes
   before making them: no trap, invariant re-established. *)
Theorem C19_start_evaluating : forall fuel line j,
  JInv j -> latest_error j = None -> state (core j) = Idle ->
  match js_start_evaluating fuel line j with JOk _ j' => JInv j' | JTrap => False | JStuck => True end.
Proof. exact js_start_safe. Qed.

Theorem C19_continue_evaluating : forall fuel j,
  JInv j -> latest_error j = None -> state (core j) = Running ->
  match js_continue_evaluating fuel j with JOk _ j' => JInv j' | JTrap => False | JStuck => True end.
Proof. exact js_continue_safe. Qed.

(* get_state never observes the transient new-interpreter state *)
Theorem C19_get_state : forall j, JInv j -> exists st, js_get_state j = JOk st j
  /\ (st = JErrored <-> latest_error j <> None)
  /\ (st = JIdle -> state (core j) = Idle) /\ (st = JRunning -> state (core j) = Running)
  /\ (st = JAwaitingInput -> state (core j) = AwaitingInput).
Proof. exact js_get_state_safe. Qed.

(* EVERY sequence of page events after start-up (start, submitted lines and
   replies with arbitrary text, break requests incl. the emoji alias, timer
   ticks — in any order, any number of pending timers): no trap, no throw. *)
Theorem C19_trap_free : forall fuel evs p,
  JInv (impl p) -> Forall (fun ev => match ev with EvLoad _ => False | _ => True end) evs ->
  safe (page_run fuel p evs).
Proof. exact page_run_safe. Qed.

(* ... and the program file loaded at start-up: a WHOLE page session under the
   page's protocol — the file (any text) is loaded into the new page once,
   before anything else, then any sequence of the events above — never traps
   and never throws.  The loader submits every line that starts with a digit
   and start_evaluating asserts an idle interpreter: the proof rests on the
   parser/tokenizer fact that such a line is never a command and either edits
   the program (idle), or is rejected (error latched: the loader stops) — a
   digit run beyond u64 is an immediate line whose first token is a number,
   which no statement starts with (Proofs/LoaderProofs.v). *)
Theorem C19_session_trap_free : forall fuel oracle text evs,
  Forall (fun ev => match ev with EvLoad _ => False | _ => True end) evs ->
  safe (page_run fuel (page_new oracle) (EvLoad text :: evs)).
Proof. exact page_session_safe. Qed.

Theorem C19_loader : forall fuel lines j log,
  JInv j -> latest_error j = None -> state (core j) = Idle ->
  match load_lines fuel lines j log with
  | (JOk _ j', _, true) => JInv j' /\ latest_error j' = None /\ state (core j') = Idle
  | (JOk _ j', _, false) => JInv j'
  | (JTrap, _, _) => False
  | (JStuck, _, _) => True
  end.
Proof. exact load_lines_safe. Qed.

Theorem C19_fresh_page_ok : forall oracle, JInv (impl (page_new oracle)).
Proof. intros oracle. apply JInv_new. Qed.

(* Faithfulness: outputs (types and text), state and error text are the image
   of what the core yields for the same calls. *)
Theorem C19_outputs : forall j,
  fst (js_take_output j) = map (fun o => (out_type o, display_output o)) (outputs (core j))
  /\ outputs (core (snd (js_take_output j))) = [].
Proof. exact js_outputs_are_core_outputs. Qed.

Theorem C19_state : forall j st,
  js_get_state j = JOk st j ->
  match st with
  | JErrored => latest_error j <> None
  | JIdle => latest_error j = None /\ state (core j) = Idle
  | JRunning => latest_error j = None /\ state (core j) = Running
  | JAwaitingInput => latest_error j = None /\ state (core j) = AwaitingInput
  end.
Proof. exact js_state_is_core_state. Qed.

Theorem C19_error_text_start : forall fuel line j e l s1,
  latest_error j = None -> start_evaluating fuel line (core j) = (Err e l, s1) ->
  forall ls, render_caret e l (Some line) s1 = Ok ls ->
  js_start_evaluating fuel line j = JOk tt (mkjs s1 (Some (join [nl] (display_error e l :: ls)))).
Proof. exact js_start_error_text. Qed.

Theorem C19_error_text_continue : forall fuel j e l s1,
  latest_error j = None -> continue_evaluating fuel (core j) = (Err e l, s1) ->
  forall ls, render_caret e l None s1 = Ok ls ->
  js_continue_evaluating fuel j = JOk tt (mkjs s1 (Some (join [nl] (display_error e l :: ls)))).
Proof. exact js_continue_error_text. Qed.

(* NEW yields an interpreter that IS a freshly created one *)
Theorem C19_new : forall fuel j,
  latest_error j = None -> state (core j) = Idle ->
  js_start_evaluating fuel (bs "NEW") j = JOk tt (js_new (pow_oracle (core j))).
Proof. exact js_new_is_fresh. Qed.

(* the transliteration is the script *)
Import String.StringSyntax.
Local Open Scope string_scope.
Theorem C19_skeleton :
  page_skeleton =
  [ ("loadAndRunSourceCode", "this.isFullyInteractive continue continue impl.start_evaluating impl.get_state S.Errored return impl.start_evaluating");
    ("start", "this.isFullyInteractive this.handleCurrentState");
    ("canProcessUserInput", "impl.get_state return S.Idle S.AwaitingInput");
    ("canBreak", "impl.get_state return S.Idle");
    ("submitUserInput", "impl.get_state S.Idle impl.start_evaluating S.AwaitingInput impl.provide_input throw this.handleCurrentState");
    ("breakAtCurrentLocation", "impl.get_state S.AwaitingInput S.Running this.isFullyInteractive impl.break_at_current_location this.handleCurrentState");
    ("showOutput", "impl.take_latest_output O.Print O.Trace O.Break O.ExtraIgnored O.Reenter O.Warning");
    ("handleCurrentState", "this.showOutput impl.get_state S.Idle this.isFullyInteractive clearPromptAndDisableInput return S.AwaitingInput S.Errored impl.take_latest_error throw this.handleCurrentState S.Running impl.continue_evaluating setTimeout this.handleCurrentState") ]
  /\ page_handlers = [ "return"; "breakAtCurrentLocation"; "canBreak"; "alias:f09f92a5"; "breakAtCurrentLocation"; "return";
                       "canProcessUserInput"; "return"; "submitUserInput" ]
  /\ web_state_map = [ ("Idle", "Idle"); ("Running", "Running"); ("AwaitingInput", "AwaitingInput"); ("NewInterpreterRequested", "PANIC") ]
  /\ web_output_map = [ ("Print", "Print"); ("Break", "Break"); ("Warning", "Warning"); ("Trace", "Trace");
                        ("ExtraIgnored", "ExtraIgnored"); ("Reenter", "Reenter") ].
Proof. exact skeleton_tie. Qed.
Local Close Scope string_scope.

(* wasm32 execution and the DOM side are outside the model. *)

(* non-vacuity: a page that loaded a 3-line program with an untokenizable line
   reports the error and stays alive; a session ticks to an INPUT, answers,
   breaks with the emoji alias and issues NEW *)
Example C19_example :
  let p0 := page_new [] in
  let evs := [EvStart; EvSubmit (bs "10 INPUT X"); EvSubmit (bs "20 PRINT X*2 : GOTO 10"); EvSubmit (bs "RUN");
              EvTick; EvSubmit (bs "21"); EvTick; EvTick; EvTick; EvSubmit break_alias; EvSubmit (bs "X% = 1"); EvSubmit (bs "NEW")] in
  match page_run 100 p0 evs with
  | POk p _ => core (impl p) = fresh [] /\ latest_error (impl p) = None
  | _ => False
  end
  /\ match page_step 100 p0 (EvLoad (bs "10 PRINT 1" ++ [10%N] ++ bs "20 C% = 1" ++ [10%N] ++ bs "30 PRINT 2")) with
     | POk p _ => latest_error (impl p) <> None
                  /\ match page_step 100 p EvStart with
                     | POk p' _ => latest_error (impl p') = None /\ input_enabled p' = false
                     | _ => False
                     end
     | _ => False
     end.
Proof. split; vm_compute; split; try reflexivity; try discriminate. split; reflexivity. Qed.

Print Assumptions C19_start_evaluating.
Print Assumptions C19_continue_evaluating.
Print Assumptions C19_get_state.
Print Assumptions C19_trap_free.
Print Assumptions C19_fresh_page_ok.
Print Assumptions C19_outputs.
Print Assumptions C19_state.
Print Assumptions C19_error_text_start.
Print Assumptions C19_error_text_continue.
Print Assumptions C19_new.
Print Assumptions C19_skeleton.
Print Assumptions C19_session_trap_free.
Print Assumptions C19_loader.
