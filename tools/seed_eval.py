#!/usr/bin/env python3
"""Development tool (not part of any registered check): evaluate one seeded change.

  tools/seed_eval.py <PROP> <mutdir> [--also C01,C16] [--keep-name NAME]

<mutdir> holds patch.diff, demo.rs (or demo.sh/demo.py) and meta.json written
by an independent sub-agent in its scratch worktree /tmp/wt/<PROP>.

1. confirms in the scratch worktree that the demo passes without the patch,
   that with the patch the workspace builds, the existing tests fail exactly
   where they failed before (the two known failures) and the demo fails;
2. runs the property's quick check (and those of --also) from a scratch copy of
   /verif against the patched worktree (VERIF_REPO), so /repo is never touched
   and concurrent work in /verif is not disturbed;
3. records everything under /verif/seeded/<NAME>/.
"""
import json, os, re, shutil, subprocess, sys, time

KNOWN_FAIL = {"type_mismatch_works", "unterminated_string_literal_works"}
ENV = dict(os.environ, CARGO_NET_OFFLINE="true", RUST_BACKTRACE="0")


def sh(cmd, cwd=None, env=None, timeout=3600):
    p = subprocess.run(cmd, cwd=cwd, env=env or ENV, shell=isinstance(cmd, str), stdout=subprocess.PIPE,
                       stderr=subprocess.STDOUT, timeout=timeout)
    return p.returncode, p.stdout.decode("utf-8", "replace")


def failing_tests(out):
    return set(re.findall(r"^test (\S+) \.\.\. FAILED", out, re.M))


def main():
    prop, mutdir = sys.argv[1], sys.argv[2].rstrip("/")
    also = []
    name = f"{prop}-{os.path.basename(mutdir)}"
    if "--also" in sys.argv:
        also = sys.argv[sys.argv.index("--also") + 1].split(",")
    if "--keep-name" in sys.argv:
        name = sys.argv[sys.argv.index("--keep-name") + 1]
    wt = os.environ.get("SEED_WT", f"/tmp/wt/{prop}")
    res = {"property": prop, "mutdir": mutdir, "worktree": wt, "steps": []}
    meta = {}
    if os.path.exists(f"{mutdir}/meta.json"):
        try:
            meta = json.load(open(f"{mutdir}/meta.json"))
        except Exception as e:
            meta = {"unparsed": str(e)}
    demo = next((f for f in ("demo.rs", "demo.sh", "demo.py") if os.path.exists(f"{mutdir}/{f}")), None)
    sh("git checkout -- . && git clean -fdq -e target", cwd=wt)
    demo_name = "demo_seed_" + re.sub(r"\W", "_", name)

    def run_demo():
        if demo == "demo.rs":
            crate = "abasic-web" if "abasic_web" in open(f"{mutdir}/demo.rs").read() else "abasic-core"
            os.makedirs(f"{wt}/{crate}/tests", exist_ok=True)
            shutil.copy(f"{mutdir}/demo.rs", f"{wt}/{crate}/tests/{demo_name}.rs")
            rc, out = sh(f"cargo test -p {crate} --test {demo_name} --offline 2>&1 | tail -40", cwd=wt,
                         env=dict(ENV, RUST_LIB_BACKTRACE="0"))
            ok = "test result: ok" in out and "FAILED" not in out
            os.remove(f"{wt}/{crate}/tests/{demo_name}.rs")
            return ok, out[-1500:]
        if demo in ("demo.sh", "demo.py"):
            interp = "bash" if demo == "demo.sh" else "python3"
            arg = wt
            text = open(f"{mutdir}/{demo}").read()
            if demo == "demo.py" and "abasic-lsp" in text and "sys.argv[1]" in text and "target/debug/abasic-lsp\"" in text:
                # the demo takes the server binary: build the (possibly patched) workspace first
                sh("cargo build --workspace --offline 2>&1 | tail -3", cwd=wt, env=ENV)
                arg = f"{wt}/target/debug/abasic-lsp"
            rc, out = sh(["bash", "-c", f"{interp} {mutdir}/{demo} {arg} 2>&1 | tail -40; exit ${{PIPESTATUS[0]}}"], cwd=wt)
            return rc == 0, out[-1500:]
        return None, "no demo"

    ok0, out0 = run_demo()
    res["demo_passes_unpatched"] = ok0
    rc, out = sh(f"git apply {mutdir}/patch.diff", cwd=wt)
    res["patch_applies"] = rc == 0
    if rc != 0:
        res["steps"].append(out[-800:])
    rc, out = sh("cargo build --workspace --offline 2>&1 | tail -15", cwd=wt)
    res["builds"] = "error" not in out.lower() or "warning" in out.lower() and "error[" not in out and "could not compile" not in out
    rc, out = sh("cargo test --workspace --no-fail-fast --offline 2>&1", cwd=wt)
    ft = {t.split("::")[-1] for t in failing_tests(out)}
    res["tests_failing_with_patch"] = sorted(ft)
    res["tests_unchanged"] = ft <= KNOWN_FAIL and "test result" in out and "could not compile" not in out
    ok1, out1 = run_demo()
    res["demo_fails_patched"] = (ok1 is False)
    if ok1 is not False:
        res["steps"].append("demo with patch: " + out1[-600:])
    if ok0 is not True:
        res["steps"].append("demo without patch: " + out0[-600:])
    res["confirmed"] = bool(ok0 and res["patch_applies"] and res["tests_unchanged"] and ok1 is False)
    # checks
    vs = f"/tmp/vs/{prop}"
    os.makedirs("/tmp/vs", exist_ok=True)
    sh(f"rsync -a --delete --exclude .git --exclude replays --exclude '.cache/work' /verif/ {vs}/")
    ct = open(f"{vs}/harness/Cargo.toml").read().replace("/repo/", wt + "/")
    open(f"{vs}/harness/Cargo.toml", "w").write(ct)
    res["checks"] = {}
    for p in [prop] + also:
        t0 = time.time()
        rc, out = sh(f"python3 verif.py check {p} --tier quick 2>&1 | tail -60", cwd=vs,
                     env=dict(ENV, VERIF_REPO=wt, VERIF_SEED=os.environ.get("VERIF_SEED", "1")), timeout=5400)
        viol = re.findall(r"^VIOLATION.*$", out, re.M)
        known = re.findall(r"^KNOWN-FINDING.*$", out, re.M)
        detail = []
        for v in viol[:3]:
            m = re.search(r"replay=(\S+)", v)
            if m and os.path.exists(m.group(1)):
                try:
                    r = json.load(open(m.group(1)))
                    detail.append({k: (str(r[k])[:400]) for k in ("kind", "class", "what", "no_longer_checks") if k in r})
                except Exception:
                    pass
        res["checks"][p] = {"violations": viol, "known": known, "caught": bool(viol), "wall_s": round(time.time() - t0),
                            "detail": detail, "tail": out[-700:] if not viol else ""}
    sh("git checkout -- . && git clean -fdq -e target", cwd=wt)
    # record
    dst = f"/verif/seeded/{name}"
    os.makedirs(dst, exist_ok=True)
    shutil.copy(f"{mutdir}/patch.diff", f"{dst}/patch.diff")
    if demo:
        shutil.copy(f"{mutdir}/{demo}", f"{dst}/{demo}")
    out_meta = {
        "property": prop,
        "origin": "independent sub-agent given only the property text and a scratch worktree",
        "summary": meta.get("summary"),
        "needs": meta.get("needs"),
        "how_to_run_demo": meta.get("how_to_run_demo"),
        "agent_ran": meta.get("ran"),
        "confirmed_by_me": {k: res[k] for k in ("demo_passes_unpatched", "patch_applies", "tests_unchanged",
                                                "tests_failing_with_patch", "demo_fails_patched", "confirmed")},
        "what_i_ran": "tools/seed_eval.py: in the scratch worktree: demo without patch; git apply; cargo build --workspace; "
                      "cargo test --workspace --no-fail-fast (no test may fail except the two that already fail on the unchanged tree when RUST_BACKTRACE is set); demo with patch; then "
                      "`VERIF_REPO=<worktree> python3 verif.py check <id> --tier quick` from a scratch copy of /verif",
        "checks": res["checks"],
        "notes": res["steps"],
    }
    json.dump(out_meta, open(f"{dst}/meta.json", "w"), indent=1)
    print(json.dumps({"name": name, "confirmed": res["confirmed"],
                      "caught": {p: c["caught"] for p, c in res["checks"].items()},
                      "detail": {p: c["detail"][:1] for p, c in res["checks"].items()}}, indent=1)[:1500])


if __name__ == "__main__":
    main()
