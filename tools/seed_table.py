#!/usr/bin/env python3
"""Regenerate the seeded-change table of DESIGN.md 11.5 from seeded/*/meta.json (between the two markers)."""
import glob, json, os, re
ROOT = os.path.dirname(os.path.dirname(os.path.abspath(__file__)))
BEGIN, END = "<!-- seed-table:begin -->", "<!-- seed-table:end -->"


def cell(x, n):
    x = re.sub(r"\s+", " ", str(x or "")).replace("|", "/")
    return x[:n]


def main():
    rows = ["| seed | change | needs | seen by (class of the first replay) |", "|---|---|---|---|"]
    for f in sorted(glob.glob(os.path.join(ROOT, "seeded", "*", "meta.json"))):
        m = json.load(open(f))
        name = os.path.basename(os.path.dirname(f))
        seen = []
        for prop, c in (m.get("checks") or {}).items():
            det = c.get("detail") or []
            if c.get("caught"):
                d = det[0] if det else {}
                seen.append("caught: " + (d.get("class") or d.get("no_longer_checks") or "violation"))
            else:
                seen.append("MISSED")
        rows.append("| %s | %s | %s | %s |" % (name, cell(m.get("summary"), 170), cell(m.get("needs"), 150), cell("; ".join(seen), 80)))
    p = os.path.join(ROOT, "DESIGN.md")
    t = open(p).read()
    a, b = t.index(BEGIN), t.index(END)
    t = t[:a + len(BEGIN)] + "\n" + "\n".join(rows) + "\n" + t[b:]
    open(p, "w").write(t)
    print(len(rows) - 2, "seeds")


if __name__ == "__main__":
    main()
