#!/usr/bin/env python3
"""Writes MANIFEST.json from the table below (kept in one place so it stays valid)."""
import json, os, sys
ROOT = os.path.dirname(os.path.dirname(os.path.abspath(__file__)))
sys.path.insert(0, ROOT)
from vlib.manifest_data import CLAIMED, NOT_CLAIMED, HOOK_COMMITS

checks = []
for pid, d in CLAIMED.items():
    checks.append({
        "property_id": pid,
        "quick_cmd": f"python3 verif.py check {pid} --tier quick",
        "thorough_cmd": f"python3 verif.py check {pid} --tier thorough",
        "evidence_file": f"/verif/evidence/{pid}.json",
        "replay_cmd_template": "python3 verif.py replay {path}",
        "engine": "coq-model+correspondence",
        "level_claimed": {"category": "proof", "text": d["text"], "design_ref": d["design_ref"]},
        "level_note": d["note"],
        "technique": d["technique"],
    })
m = {
    "version": 1,
    "setup_cmd": "python3 verif.py setup",
    "hooks": {
        "guard": "--cfg abasic_verif",
        "enable": "RUSTFLAGS=\"--cfg abasic_verif\" cargo build --offline (the harness crate /verif/harness depends on /repo/abasic-core and /repo/abasic-web by path; no Cargo.toml edits in /repo)",
        "baseline_off_cmd": "cd /repo && cargo test --workspace --no-fail-fast --offline",
        "source_commits": HOOK_COMMITS,
        "add_only": True,
    },
    "engines": [{
        "name": "coq-model+correspondence",
        "path": "/verif/coq, /verif/harness, /verif/vlib, /verif/tools/gen_tables.py",
        "serves_properties": list(CLAIMED),
        "kind_free_text": "Machine-checked proof in Coq 8.16.1 over a hand-written executable Gallina model of abasic; the model is tied to /repo on every run by a table translator (tools/gen_tables.py -> coq/Gen/Tables.v) and a differential correspondence check (Rust harness vs vm_compute in coqc, comparison computed inside Coq); implementation-side oracles search for concrete failing inputs.",
    }],
    "checks": checks,
    "not_applicable": [{"property_id": p, "reason": r} for p, r in NOT_CLAIMED.items()],
    "notes": "See DESIGN.md. Checks honour VERIF_SEED and VERIF_TIER. Known findings: /verif/known_findings.json.",
}
json.dump(m, open(os.path.join(ROOT, "MANIFEST.json"), "w"), indent=1)
print("MANIFEST.json written:", len(checks), "claimed,", len(NOT_CLAIMED), "not claimed")
