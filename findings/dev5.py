import sys, json
sys.path.insert(0,'/verif')
from vlib import core, files
from vlib.main import Check
chk = Check("C05","quick",1)
chk.harness_path = core.build_harness()
files.run_c05(chk)
from collections import Counter
c = Counter(f['cls'] for f in chk.failures)
print(c)
seen=set()
for f in chk.failures:
    if f['cls'] not in seen:
        seen.add(f['cls']); print(f['cls'], '|', f['what'][:200], '|', repr(f['replay']['file'][:120]))
print(chk.dist)
